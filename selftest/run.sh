#!/bin/bash
# Must-fail corpus: every mutant (seeded property-breaking change, or a repaired defect put back) must make the
# quick check of its property report a violation naming the expected obligation. Each mutant is applied to a
# throw-away copy of /repo's working tree outside /repo and /verif, which is removed afterwards.
# Usage: selftest/run.sh [property-id|all] [discover]
cd "$(dirname "$0")/.."
VERIF="$(pwd)"
WANT="${1:-all}"
MODE="${2:-check}"
REPO="${VERIF_REPO:-/repo}"
fail=0; n=0
while IFS=$'\t' read -r name prop dir patch expect; do
  [ -z "$name" ] && continue
  case "$name" in \#*) continue;; esac
  [ "$WANT" != "all" ] && [ "$WANT" != "$prop" ] && continue
  T=$(mktemp -d "${TMPDIR:-/tmp}/govc-selftest.XXXXXX")
  rsync -a --exclude .git "$REPO/" "$T/repo/"
  if [ "$dir" = "revert" ]; then
    (cd "$T/repo" && patch -R -p1 -s < "$VERIF/selftest/mutants/$patch") >/dev/null 2>&1 || { echo "SELFTEST $name: patch does not apply (skipped)"; rm -rf "$T"; continue; }
  else
    (cd "$T/repo" && patch -p1 -s < "$VERIF/selftest/mutants/$patch") >/dev/null 2>&1 || { echo "SELFTEST $name: patch does not apply (skipped)"; rm -rf "$T"; continue; }
  fi
  out=$(GOVC_NO_RETRY=1 "$VERIF/bin/govc" -repo "$T/repo" -verif "$VERIF" -out "$T/out" -prop "$prop" -tier quick -evidence=false 2>&1); rc=$?
  rm -rf "$T"
  n=$((n+1))
  if [ "$MODE" = "discover" ]; then
    echo "== $name ($prop) rc=$rc"; echo "$out" | grep VIOLATION | sed 's/.*obligation=//; s/ status=.*//' | head -6
    continue
  fi
  if [ $rc -ne 0 ] && echo "$out" | grep VIOLATION | grep -qF "$expect"; then
    echo "SELFTEST $name ($prop): detected by $expect"
  else
    echo "SELFTEST-FAILED $name ($prop): expected a violation of $expect, got rc=$rc"
    echo "$out" | grep VIOLATION | cut -c1-200 | head -3
    fail=1
  fi
done < "$VERIF/selftest/corpus.tsv"
echo "selftest: $n mutants, fail=$fail"
exit $fail
