#!/bin/bash
# Must-fail corpus: every mutant (seeded property-breaking change, or a repaired defect put back) must make the
# quick check of its property report a violation naming the expected obligation. Each mutant is applied to a
# throw-away copy of /repo's working tree outside /repo and /verif, which is removed afterwards.
# Usage: selftest/run.sh [property-id|all] [discover]        (SELFTEST_JOBS mutants run at a time, default 3)
cd "$(dirname "$0")/.."
export VERIF="$(pwd)"
WANT="${1:-all}"
export MODE="${2:-check}"
export REPO="${VERIF_REPO:-/repo}"
JOBS="${SELFTEST_JOBS:-3}"

one() {
  IFS=$'\t' read -r name prop dir patch expect <<< "$1"
  T=$(mktemp -d "${TMPDIR:-/tmp}/govc-selftest.XXXXXX")
  rsync -a --exclude .git "$REPO/" "$T/repo/"
  if [ "$dir" = "revert" ]; then
    (cd "$T/repo" && patch -R -p1 -s < "$VERIF/selftest/mutants/$patch") >/dev/null 2>&1 || { echo "SELFTEST-SKIPPED $name ($prop): patch does not apply to the current tree"; rm -rf "$T"; return; }
  else
    (cd "$T/repo" && patch -p1 -s < "$VERIF/selftest/mutants/$patch") >/dev/null 2>&1 || { echo "SELFTEST-SKIPPED $name ($prop): patch does not apply to the current tree"; rm -rf "$T"; return; }
  fi
  out=$(GOVC_NO_RETRY=1 "$VERIF/bin/govc" -repo "$T/repo" -verif "$VERIF" -out "$T/out" -prop "$prop" -tier quick -evidence=false 2>&1); rc=$?
  rm -rf "$T"
  if [ "$MODE" = "discover" ]; then
    echo "== $name ($prop) rc=$rc $(echo "$out" | grep VIOLATION | sed 's/.*obligation=//; s/ status=.*//' | head -6 | tr '\n' ' ')"
    return
  fi
  if [ $rc -ne 0 ] && echo "$out" | grep VIOLATION | grep -qF "$expect"; then
    echo "SELFTEST $name ($prop): detected by $expect"
  else
    echo "SELFTEST-FAILED $name ($prop): expected a violation of $expect, got rc=$rc $(echo "$out" | grep VIOLATION | cut -c1-200 | head -3 | tr '\n' ' ')"
  fi
}
export -f one

LIST=$(mktemp "${TMPDIR:-/tmp}/govc-selftest-list.XXXXXX")
while IFS=$'\t' read -r name prop dir patch expect; do
  [ -z "$name" ] && continue
  case "$name" in \#*) continue;; esac
  [ "$WANT" != "all" ] && [ "$WANT" != "$prop" ] && continue
  printf '%s\t%s\t%s\t%s\t%s\n' "$name" "$prop" "$dir" "$patch" "$expect"
done < "$VERIF/selftest/corpus.tsv" > "$LIST"
n=$(wc -l < "$LIST")
OUT=$(mktemp "${TMPDIR:-/tmp}/govc-selftest-out.XXXXXX")
tr '\n' '\0' < "$LIST" | xargs -0 -P "$JOBS" -I{} bash -c 'one "$1"' _ {} | tee "$OUT"
fail=0
grep -q "^SELFTEST-FAILED" "$OUT" && fail=1
rm -f "$LIST" "$OUT"
echo "selftest: $n mutants, fail=$fail"
exit $fail
