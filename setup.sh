#!/bin/bash
# Builds the govc verifier offline from /verif/govc.
set -e
cd "$(dirname "$0")/govc"
export PATH=/opt/veriftools/go1.26.8/bin:$PATH GOTOOLCHAIN=local GOFLAGS=-mod=mod GOPROXY=off GOSUMDB=off
mkdir -p ../bin
go build -o ../bin/govc ./cmd/govc
echo "govc built"
