package main

import (
	"fmt"
	"go/constant"
	"go/types"
	"strings"

	"golang.org/x/tools/go/ssa"
)

type modelFn func(fc *FnCtx, fr *Frame, st *State, instr ssa.Instruction, c *ssa.CallCommon, args []Val, rt types.Type) Val

var models map[string]modelFn
var ifaceModels map[string]modelFn

// modelWrites lists modelled locations written by library models (for loop havoc / write sets).
var modelWrites = map[string][]string{
	"time.Now":   {"$now"},
	"time.Since": {"$now"},
	"time.Sleep": {"$now"},
}
var ifaceModelWrites = map[string][]string{}

func termArg(fc *FnCtx, st *State, args []Val, i int, t types.Type) Term {
	if i < len(args) {
		if tt, ok := args[i].(Term); ok {
			return tt
		}
	}
	if t == nil {
		return fc.fresh("arg", SInt)
	}
	return fc.havocValue(st, "arg", t).(Term)
}

func havocRes(fc *FnCtx, st *State, prefix string, rt types.Type) Val {
	if rt == nil {
		return nil
	}
	return fc.havocValue(st, prefix, rt)
}

func init() {
	models = map[string]modelFn{
		// ---- errors / fmt
		"errors.New": func(fc *FnCtx, fr *Frame, st *State, instr ssa.Instruction, c *ssa.CallCommon, args []Val, rt types.Type) Val {
			fc.declareSentinels()
			e := fc.fresh("errnew", SErr)
			fc.assume(st, tNot(tEq(e, T(SErr, "nilErr"))))
			fc.assumeNoSentinel(st, e)
			return e
		},
		"fmt.Errorf": modelErrorf,
		"errors.Is": func(fc *FnCtx, fr *Frame, st *State, instr ssa.Instruction, c *ssa.CallCommon, args []Val, rt types.Type) Val {
			fc.declareSentinels()
			e := termArg(fc, st, args, 0, c.Args[0].Type())
			s := termArg(fc, st, args, 1, c.Args[1].Type())
			return tOr(tAnd(tEq(e, s), tNot(tEq(e, T(SErr, "nilErr")))), app(SBool, "errIs", e, s))
		},
		"errors.As": modelErrorsAs,
		"errors.Join": func(fc *FnCtx, fr *Frame, st *State, instr ssa.Instruction, c *ssa.CallCommon, args []Val, rt types.Type) Val {
			fc.declareSentinels()
			var es []Term
			if av, ok := args[0].(*ArrVal); ok {
				for _, e := range av.Elems {
					if t, ok := e.(Term); ok && t.Sort == SErr {
						es = append(es, t)
					}
				}
			} else if sl, ok := args[0].(Term); ok && sl.Sort == SSlice && staticVarargLen(c.Args[0]) >= 0 {
				// materialised variadic literal: read its elements back from the element heap
				h := fc.heapRaw(st, elemHeapName(SErr), arrSort(SInt, arrSort(SInt, SErr)))
				for i := 0; i < staticVarargLen(c.Args[0]); i++ {
					es = append(es, tSelect(tSelect(h, slArr(sl)), tIx(slOff(sl), intLit(int64(i)))))
				}
			} else {
				return havocRes(fc, st, "join", rt)
			}
			r := fc.fresh("joined", SErr)
			allNil := tTrue
			for _, e := range es {
				allNil = tAnd(allNil, tEq(e, T(SErr, "nilErr")))
			}
			fc.assume(st, tEq(tEq(r, T(SErr, "nilErr")), allNil))
			for _, s := range fc.eng.sentinels {
				var alts []Term
				for _, e := range es {
					alts = append(alts, tOr(tEq(e, T(SErr, s)), app(SBool, "errIs", e, T(SErr, s))))
				}
				fc.assume(st, tEq(app(SBool, "errIs", r, T(SErr, s)), tOr(alts...)))
			}
			for _, o := range fc.eng.errStructs {
				on := "as_" + sanitize(o)
				acc := intLit(0)
				for i := len(es) - 1; i >= 0; i-- {
					a := app(SInt, on, es[i])
					acc = tIte(tNot(tEq(a, intLit(0))), a, acc)
				}
				fc.assume(st, tEq(app(SInt, on, r), acc))
			}
			return r
		},
		"fmt.Sprintf": func(fc *FnCtx, fr *Frame, st *State, instr ssa.Instruction, c *ssa.CallCommon, args []Val, rt types.Type) Val {
			return havocRes(fc, st, "sprintf", rt)
		},
		"fmt.Sprint": func(fc *FnCtx, fr *Frame, st *State, instr ssa.Instruction, c *ssa.CallCommon, args []Val, rt types.Type) Val {
			return havocRes(fc, st, "sprint", rt)
		},
		// ---- time
		"time.Now": func(fc *FnCtx, fr *Frame, st *State, instr ssa.Instruction, c *ssa.CallCommon, args []Val, rt types.Type) Val {
			return fc.advanceClock(st)
		},
		"time.Since": func(fc *FnCtx, fr *Frame, st *State, instr ssa.Instruction, c *ssa.CallCommon, args []Val, rt types.Type) Val {
			n := fc.advanceClock(st)
			fc.assumptions["A-time: time.Time is a mathematical instant (Int ns); Add/Sub do not saturate; monotonic clock reading ignored"] = true
			return fc.nameTerm("since", tSub(n, termArg(fc, st, args, 0, nil)))
		},
		"time.Sleep": func(fc *FnCtx, fr *Frame, st *State, instr ssa.Instruction, c *ssa.CallCommon, args []Val, rt types.Type) Val {
			fc.advanceClock(st)
			return nil
		},
		"(time.Time).Before": func(fc *FnCtx, fr *Frame, st *State, instr ssa.Instruction, c *ssa.CallCommon, args []Val, rt types.Type) Val {
			return tLt(termArg(fc, st, args, 0, nil), termArg(fc, st, args, 1, nil))
		},
		"(time.Time).After": func(fc *FnCtx, fr *Frame, st *State, instr ssa.Instruction, c *ssa.CallCommon, args []Val, rt types.Type) Val {
			return tGt(termArg(fc, st, args, 0, nil), termArg(fc, st, args, 1, nil))
		},
		"(time.Time).Equal": func(fc *FnCtx, fr *Frame, st *State, instr ssa.Instruction, c *ssa.CallCommon, args []Val, rt types.Type) Val {
			return tEq(termArg(fc, st, args, 0, nil), termArg(fc, st, args, 1, nil))
		},
		"(time.Time).Compare": func(fc *FnCtx, fr *Frame, st *State, instr ssa.Instruction, c *ssa.CallCommon, args []Val, rt types.Type) Val {
			a, b := termArg(fc, st, args, 0, nil), termArg(fc, st, args, 1, nil)
			return tIte(tLt(a, b), intLit(-1), tIte(tGt(a, b), intLit(1), intLit(0)))
		},
		"(time.Time).Add": func(fc *FnCtx, fr *Frame, st *State, instr ssa.Instruction, c *ssa.CallCommon, args []Val, rt types.Type) Val {
			fc.assumptions["A-time: time.Time is a mathematical instant (Int ns); Add/Sub do not saturate; monotonic clock reading ignored"] = true
			return fc.nameTerm("tadd", tAdd(termArg(fc, st, args, 0, nil), termArg(fc, st, args, 1, nil)))
		},
		"(time.Time).Sub": func(fc *FnCtx, fr *Frame, st *State, instr ssa.Instruction, c *ssa.CallCommon, args []Val, rt types.Type) Val {
			fc.assumptions["A-time: time.Time is a mathematical instant (Int ns); Add/Sub do not saturate; monotonic clock reading ignored"] = true
			d := fc.nameTerm("tsub", tSub(termArg(fc, st, args, 0, nil), termArg(fc, st, args, 1, nil)))
			// Duration is int64: saturating in Go; assumed in range (A-time)
			fc.assume(st, tAnd(tLe(bigLit(min64s), d), tLe(d, bigLit(max64s))))
			return d
		},
		"(time.Time).UTC": func(fc *FnCtx, fr *Frame, st *State, instr ssa.Instruction, c *ssa.CallCommon, args []Val, rt types.Type) Val {
			return termArg(fc, st, args, 0, nil)
		},
		"(time.Time).IsZero": func(fc *FnCtx, fr *Frame, st *State, instr ssa.Instruction, c *ssa.CallCommon, args []Val, rt types.Type) Val {
			return tEq(termArg(fc, st, args, 0, nil), intLit(0))
		},
		"(time.Time).Format":   modelHavoc,
		"(time.Time).String":   modelHavoc,
		"(time.Time).UnixNano": modelHavoc,
		"(time.Duration).String": modelHavoc,
		"(time.Duration).Seconds": modelHavoc,
		// ---- bytes / strings / hex
		"bytes.Equal": func(fc *FnCtx, fr *Frame, st *State, instr ssa.Instruction, c *ssa.CallCommon, args []Val, rt types.Type) Val {
			a, b := termArg(fc, st, args, 0, c.Args[0].Type()), termArg(fc, st, args, 1, c.Args[1].Type())
			// nil and empty slices are equal for bytes.Equal
			return tOr(tEq(a, b), tAnd(tEq(app(SInt, "blen", a), intLit(0)), tEq(app(SInt, "blen", b), intLit(0))))
		},
		"strings.EqualFold": func(fc *FnCtx, fr *Frame, st *State, instr ssa.Instruction, c *ssa.CallCommon, args []Val, rt types.Type) Val {
			return app(SBool, "foldEq", termArg(fc, st, args, 0, c.Args[0].Type()), termArg(fc, st, args, 1, c.Args[1].Type()))
		},
		"(github.com/celestiaorg/go-header.Hash).String": func(fc *FnCtx, fr *Frame, st *State, instr ssa.Instruction, c *ssa.CallCommon, args []Val, rt types.Type) Val {
			return app(SStr, "hexStr", termArg(fc, st, args, 0, c.Args[0].Type()))
		},
		"encoding/hex.DecodeString": modelHavoc,
		// ---- context
		"context.WithTimeout":       modelCtxDerive,
		"context.WithCancel":        modelCtxDerive,
		"context.WithDeadline":      modelCtxDerive,
		"context.WithDeadlineCause": modelCtxDerive,
		"context.Background": func(fc *FnCtx, fr *Frame, st *State, instr ssa.Instruction, c *ssa.CallCommon, args []Val, rt types.Type) Val {
			return fc.decls.constant("ctxBackground", SInt) // one value, named ctxBackground in contracts
		},
		"context.Cause": func(fc *FnCtx, fr *Frame, st *State, instr ssa.Instruction, c *ssa.CallCommon, args []Val, rt types.Type) Val {
			fc.declareSentinels()
			res := havocRes(fc, st, "cause", rt)
			// Cause(ctx) is non-nil once the context has been observed done (Err() != nil)
			if ctx, ok := args[0].(Term); ok {
				if known, has := st.cells[ctxDoneKey(ctx)].(Term); has {
					if rt2, ok := res.(Term); ok && rt2.Sort == SErr {
						fc.assume(st, tImp(known, tNot(tEq(rt2, T(SErr, "nilErr")))))
					}
				}
				if rt2, ok := res.(Term); ok && rt2.Sort == SErr {
					// causes are chosen by whoever cancels: callers of the package, or the store's own
					// delete deadline (errDeleteTimeout)
					fc.assumeForeignError(st, rt2, "errDeleteTimeout")
				}
			}
			return res
		},
		// ---- sync
		"(*sync.Mutex).Lock":      modelLock,
		"(*sync.Mutex).Unlock":    modelUnlock,
		"(*sync.RWMutex).Lock":    modelLock,
		"(*sync.RWMutex).Unlock":  modelUnlock,
		"(*sync.RWMutex).RLock":   modelLock,
		"(*sync.RWMutex).RUnlock": modelUnlock,
		"(*sync.Mutex).TryLock": func(fc *FnCtx, fr *Frame, st *State, instr ssa.Instruction, c *ssa.CallCommon, args []Val, rt types.Type) Val {
			ok := fc.fresh("trylock", SBool)
			// acquire effects only on success: over-approximate by applying havoc+assume unconditionally guarded
			return ok
		},
		"(*sync.WaitGroup).Add":  modelHavoc,
		"(*sync.WaitGroup).Done": modelHavoc,
		"(*sync.WaitGroup).Wait": modelHavoc,
		// ---- sort / slices
		"sort.Slice": modelSortSlice,
		"slices.Clone": func(fc *FnCtx, fr *Frame, st *State, instr ssa.Instruction, c *ssa.CallCommon, args []Val, rt types.Type) Val {
			// fresh slice with same length and contents
			s := termArg(fc, st, args, 0, c.Args[0].Type())
			if s.Sort != SSlice {
				return havocRes(fc, st, "clone", rt)
			}
			es := sortOf(unalias(c.Args[0].Type()).Underlying().(*types.Slice).Elem())
			hn := elemHeapName(es)
			h := fc.heapRaw(st, hn, arrSort(SInt, arrSort(SInt, es)))
			arr := fc.allocRef(st)
			na := fc.fresh("clonearr", arrSort(SInt, es))
			fc.assume(st, T(SBool, fmt.Sprintf("(forall ((k Int)) (! (=> (and (<= 0 k) (< k %s)) (= (select %s (ix 0 k)) (select %s (ix %s k)))) :pattern ((select %s (ix 0 k)))))",
				slLen(s).S, na.S, tSelect(h, slArr(s)).S, slOff(s).S, na.S)))
			fc.setHeap(st, hn, tStore(h, arr, na))
			return fc.nameTerm("clone", mkSlice(arr, intLit(0), slLen(s), slLen(s)))
		},
		// ---- atomics
		"(*sync/atomic.Uint64).Load":           modelAtomicLoad,
		"(*sync/atomic.Uint64).Store":          modelAtomicStore,
		"(*sync/atomic.Uint64).CompareAndSwap": modelAtomicCAS,
		"(*sync/atomic.Pointer).Load":          modelAPLoad,
		"(*sync/atomic.Pointer).Store":         modelAPStore,
		"(*sync/atomic.Pointer).CompareAndSwap": modelAPCAS,
		// ---- maps.DeleteFunc(m, del): every entry for which the predicate closure holds is removed
		"maps.DeleteFunc": modelMapsDeleteFunc,
		// ---- wire codec (external): Write only reads the message, Read fills it with arbitrary content
		"github.com/celestiaorg/go-libp2p-messenger/serde.Write": func(fc *FnCtx, fr *Frame, st *State, instr ssa.Instruction, c *ssa.CallCommon, args []Val, rt types.Type) Val {
			fc.assumptions["serde.Write does not modify the message it serialises"] = true
			return havocRes(fc, st, "serdewrite", rt)
		},
		"github.com/celestiaorg/go-libp2p-messenger/serde.Read": func(fc *FnCtx, fr *Frame, st *State, instr ssa.Instruction, c *ssa.CallCommon, args []Val, rt types.Type) Val {
			// only the message object passed in is filled (its direct fields get arbitrary values); the decoder
			// may allocate sub-objects, so the allocation pointer moves first
			oldTop := fc.allocTop(st)
			nt := fc.fresh("allocTop", SInt)
			fc.assume(st, tGe(nt, oldTop))
			st.cells[keyAlloc] = nt
			done := false
			for i, a := range c.Args {
				mi, isMI := a.(*ssa.MakeInterface)
				if !isMI || i >= len(args) {
					continue
				}
				n, isS := isStructPtr(mi.X.Type())
				ref, isT := args[i].(Term)
				if !isS || !isT {
					continue
				}
				s := n.Underlying().(*types.Struct)
				for j := 0; j < s.NumFields(); j++ {
					f := s.Field(j)
					if _, nested := isNestedStructField(f.Type()); nested {
						continue
					}
					srt := sortOf(f.Type())
					hn := structHeapName(n, f.Name())
					h := fc.heap(st, hn, srt)
					nv := fc.fresh("decoded_"+f.Name(), srt)
					fc.assume(st, fc.typeFact(st, nv, f.Type()))
					fc.setHeap(st, hn, tStore(h, ref, nv))
				}
				done = true
			}
			if !done {
				fc.havocPointees(fr, st, c, args)
			}
			return havocRes(fc, st, "serderead", rt)
		},
		// ---- repo helpers that are pure formatting
		"github.com/celestiaorg/go-header.formatTime": modelHavoc,
	}
	modelWrites["(*sync/atomic.Uint64).Store"] = []string{"AT_u64"}
	modelWrites["(*sync/atomic.Uint64).CompareAndSwap"] = []string{"AT_u64"}
	modelWrites["(*sync/atomic.Pointer).Store"] = []string{"AP_set", "AP_val_Hdr"}
	modelWrites["(*sync/atomic.Pointer).CompareAndSwap"] = []string{"AP_set", "AP_val_Hdr"}
	ifaceModels = map[string]modelFn{
		"context.Context.Done": func(fc *FnCtx, fr *Frame, st *State, instr ssa.Instruction, c *ssa.CallCommon, args []Val, rt types.Type) Val {
			return havocRes(fc, st, "done", rt)
		},
		"context.Context.Err": func(fc *FnCtx, fr *Frame, st *State, instr ssa.Instruction, c *ssa.CallCommon, args []Val, rt types.Type) Val {
			fc.declareSentinels()
			// ctx.Err() is nil, Canceled or DeadlineExceeded
			e := fc.fresh("ctxerr", SErr)
			fc.assume(st, tOr(tEq(e, T(SErr, "nilErr")), tEq(e, T(SErr, "sent_context_Canceled")), tEq(e, T(SErr, "sent_context_DeadlineExceeded"))))
			// Err() is non-nil exactly when the context is done; once observed done it stays done
			if ctx, ok := args[0].(Term); ok {
				k := ctxDoneKey(ctx)
				known, has := st.cells[k].(Term)
				if !has {
					known = tFalse
				}
				d := fc.fresh("ctxisdone", SBool)
				fc.assume(st, tImp(known, d))
				fc.assume(st, tEq(tEq(e, T(SErr, "nilErr")), tNot(d)))
				st.cells[k] = d
			}
			return e
		},
		"context.Context.Deadline": func(fc *FnCtx, fr *Frame, st *State, instr ssa.Instruction, c *ssa.CallCommon, args []Val, rt types.Type) Val {
			return havocRes(fc, st, "deadline", rt)
		},
		"trace.Tracer.Start":     modelTracerStart,
		"trace.Span.End":         modelNoop,
		"trace.Span.SetStatus":   modelNoop,
		"trace.Span.AddEvent":    modelNoop,
		"trace.Span.SetAttributes": modelNoop,
		"trace.Span.RecordError": modelNoop,
		"context.Context.Value": func(fc *FnCtx, fr *Frame, st *State, instr ssa.Instruction, c *ssa.CallCommon, args []Val, rt types.Type) Val {
			return havocRes(fc, st, "ctxval", rt)
		},
	}
}

// modelMapsDeleteFunc executes the predicate closure once on symbolic (key, value) and quantifies the
// result over all keys: has'(k) <=> has(k) && !del(k, val(k)); values are unchanged.
func modelMapsDeleteFunc(fc *FnCtx, fr *Frame, st *State, instr ssa.Instruction, c *ssa.CallCommon, args []Val, rt types.Type) Val {
	mt, ok := unalias(c.Args[0].Type()).Underlying().(*types.Map)
	m, mok := args[0].(Term)
	cv, cok := args[1].(*ClosureVal)
	if !ok || !mok || !cok || cv.Fn == nil || len(cv.Fn.Params) != 2 {
		fc.abstract(instr, "maps.DeleteFunc with unmodelled arguments: map contents havoc'd")
		return nil
	}
	hasN, valN, ks, vs := fc.mapHeaps(st, mt)
	qk := fc.fresh("dfk", ks)
	qv := fc.fresh("dfv", vs)
	nBefore := len(fc.assertions)
	scratch := st.clone()
	nf := fc.newFrame(cv.Fn, nil, fr.depth+1)
	nf.env[cv.Fn.Params[0]] = qk
	nf.env[cv.Fn.Params[1]] = qv
	for i, fv := range cv.Fn.FreeVars {
		if i < len(cv.Bindings) {
			nf.env[fv] = cv.Bindings[i]
		}
	}
	out, res := fc.execBody(nf, scratch)
	if out == nil || len(res) != 1 || len(nf.panics) > 0 {
		fc.abstract(instr, "maps.DeleteFunc predicate not evaluable: map contents havoc'd")
		fc.assertions = fc.assertions[:nBefore]
		return nil
	}
	r, rok := res[0].(Term)
	// definitional assertions made while executing the predicate mention qk/qv: fold them into the
	// quantified fact as a conjunction of (premise) definitions
	defs := append([]string(nil), fc.assertions[nBefore:]...)
	fc.assertions = fc.assertions[:nBefore]
	if !rok || r.Sort != SBool {
		fc.abstract(instr, "maps.DeleteFunc predicate result unmodelled")
		return nil
	}
	hh := st.heaps[hasN]
	vh := st.heaps[valN]
	oldHas := tSelect(hh, m)
	newHas := fc.fresh("dfhas", arrSort(ks, SBool))
	// quantify: replace the symbolic key/value by the bound variable / the stored value
	body := r.S
	pre := "true"
	if len(defs) > 0 {
		pre = "(and " + strings.Join(defs, " ") + ")"
	}
	val := fmt.Sprintf("(select (select %s %s) dfq)", vh.S, m.S)
	sub := func(s string) string {
		s = replaceSymbol(s, qk.S, "dfq")
		return replaceSymbol(s, qv.S, val)
	}
	// the auxiliary constants introduced by the predicate body are definitions (= sym expr): they become
	// let-bindings inside the quantifier; anything else stays a premise
	aux := auxSymbols(defs, fc, nBefore)
	isAux := map[string]bool{}
	for _, a := range aux {
		isAux[a[0]] = true
	}
	var lets []string
	var premises []string
	for _, d := range defs {
		bound := false
		for _, a := range aux {
			if strings.HasPrefix(d, "(= "+a[0]+" ") {
				lets = append(lets, "("+a[0]+" "+sub(d[len("(= "+a[0]+" "):len(d)-1])+")")
				bound = true
				break
			}
		}
		if !bound {
			premises = append(premises, sub(d))
		}
	}
	pre = "true"
	if len(premises) > 0 {
		pre = "(and " + strings.Join(premises, " ") + ")"
	}
	inner := fmt.Sprintf("(=> %s (= (select %s dfq) (and (select %s dfq) (not %s))))", pre, newHas.S, oldHas.S, sub(body))
	for i := len(lets) - 1; i >= 0; i-- {
		inner = "(let (" + lets[i] + ") " + inner + ")"
	}
	fact := fmt.Sprintf("(forall ((dfq %s)) (! %s :pattern ((select %s dfq))))", ks, inner, newHas.S)
	fc.assume(st, T(SBool, fact))
	fc.setHeap(st, hasN, tStore(hh, m, newHas))
	fc.usedModels["maps.DeleteFunc (predicate "+funcDisplayName(cv.Fn)+" evaluated symbolically)"] = true
	return nil
}

// replaceSymbol substitutes whole-symbol occurrences in an SMT term string.
func replaceSymbol(s, sym, by string) string {
	var b strings.Builder
	i := 0
	for i < len(s) {
		j := strings.Index(s[i:], sym)
		if j < 0 {
			b.WriteString(s[i:])
			break
		}
		j += i
		end := j + len(sym)
		isSymChar := func(c byte) bool {
			return c == '_' || c == '.' || c == '$' || c == '!' || (c >= '0' && c <= '9') || (c >= 'a' && c <= 'z') || (c >= 'A' && c <= 'Z')
		}
		if (j > 0 && isSymChar(s[j-1])) || (end < len(s) && isSymChar(s[end])) {
			b.WriteString(s[i:end])
			i = end
			continue
		}
		b.WriteString(s[i:j])
		b.WriteString(by)
		i = end
	}
	return b.String()
}

// auxSymbols: constants declared while executing a predicate body (after assertion index n0) that occur
// in its definitional assertions; returned as (name, sort) pairs to be bound by the enclosing quantifier.
func auxSymbols(defs []string, fc *FnCtx, n0 int) [][2]string {
	var out [][2]string
	seen := map[string]bool{}
	for _, d := range defs {
		for _, m := range symRe.FindAllString(d, -1) {
			if seen[m] {
				continue
			}
			seen[m] = true
			decl, ok := fc.decls.text[m]
			if !ok || !strings.HasPrefix(decl, "(declare-fun "+m+" () ") {
				continue
			}
			// only symbols created by this predicate execution (numbered after the current counter base)
			if !strings.HasPrefix(d, "(= "+m+" ") {
				continue
			}
			srt := strings.TrimSuffix(strings.TrimPrefix(decl, "(declare-fun "+m+" () "), ")")
			out = append(out, [2]string{m, srt})
		}
	}
	return out
}

func modelHavoc(fc *FnCtx, fr *Frame, st *State, instr ssa.Instruction, c *ssa.CallCommon, args []Val, rt types.Type) Val {
	return havocRes(fc, st, "lib", rt)
}

func modelCtxDerive(fc *FnCtx, fr *Frame, st *State, instr ssa.Instruction, c *ssa.CallCommon, args []Val, rt types.Type) Val {
	// returns (ctx, cancel): derived ctx is a fresh reference; cancel is a no-op closure
	ctx := fc.fresh("ctx", SInt)
	fc.decls.fun("ctxParent", []string{SInt}, SInt)
	fc.decls.fun("sp_ctxBounded", []string{SInt}, SBool)
	if p, ok := args[0].(Term); ok {
		fc.assume(st, tEq(app(SInt, "ctxParent", ctx), p))
	}
	name := calleeModelName(c.StaticCallee())
	if strings.HasSuffix(name, "WithTimeout") || strings.Contains(name, "WithDeadline") {
		fc.assume(st, app(SBool, "sp_ctxBounded", ctx))
	} else if p, ok := args[0].(Term); ok {
		fc.assume(st, tEq(app(SBool, "sp_ctxBounded", ctx), app(SBool, "sp_ctxBounded", p)))
	}
	return &TupleVal{Elems: []Val{ctx, &ClosureVal{Fn: nil}}}
}

// modelTracerStart: otel Tracer.Start(ctx, name, opts...) returns a context derived from ctx (same
// deadline) and a span; spans are observability only.
func modelTracerStart(fc *FnCtx, fr *Frame, st *State, instr ssa.Instruction, c *ssa.CallCommon, args []Val, rt types.Type) Val {
	ctx := fc.fresh("ctx", SInt)
	fc.decls.fun("ctxParent", []string{SInt}, SInt)
	fc.decls.fun("sp_ctxBounded", []string{SInt}, SBool)
	if len(args) > 1 {
		if p, ok := args[1].(Term); ok {
			fc.assume(st, tEq(app(SInt, "ctxParent", ctx), p))
			fc.assume(st, tEq(app(SBool, "sp_ctxBounded", ctx), app(SBool, "sp_ctxBounded", p)))
		}
	}
	return &TupleVal{Elems: []Val{ctx, fc.fresh("span", SInt)}}
}

func modelNoop(fc *FnCtx, fr *Frame, st *State, instr ssa.Instruction, c *ssa.CallCommon, args []Val, rt types.Type) Val {
	return havocRes(fc, st, "noop", rt)
}

// modelErrorf: fmt.Errorf(format, args...) with %w operands.
func modelErrorf(fc *FnCtx, fr *Frame, st *State, instr ssa.Instruction, c *ssa.CallCommon, args []Val, rt types.Type) Val {
	fc.declareSentinels()
	r := fc.fresh("errorf", SErr)
	fc.assume(st, tNot(tEq(r, T(SErr, "nilErr"))))
	format := ""
	if k, ok := c.Args[0].(*ssa.Const); ok && k.Value != nil && k.Value.Kind() == constant.String {
		format = constant.StringVal(k.Value)
	} else {
		fc.abstract(instr, "fmt.Errorf with non-constant format: wrapped errors unknown")
		return r
	}
	// positions of verbs
	var verbs []byte
	for i := 0; i < len(format); i++ {
		if format[i] != '%' {
			continue
		}
		j := i + 1
		for j < len(format) && strings.ContainsRune("+-# 0123456789.", rune(format[j])) {
			j++
		}
		if j < len(format) {
			if format[j] != '%' {
				verbs = append(verbs, format[j])
			}
			i = j
		}
	}
	var wrapped []Term
	if len(args) > 1 {
		if av, ok := args[1].(*ArrVal); ok {
			for i, e := range av.Elems {
				if i < len(verbs) && verbs[i] == 'w' {
					var inner Val = e
					if a, ok := e.(*AnyVal); ok {
						inner = a.V
					}
					if t, ok := inner.(Term); ok && t.Sort == SErr {
						wrapped = append(wrapped, t)
					} else {
						fc.abstract(instr, "fmt.Errorf %w operand not modelled")
					}
				}
			}
		} else if strings.Contains(format, "%w") {
			fc.abstract(instr, "fmt.Errorf varargs not modelled")
			return r
		}
	}
	for _, s := range fc.eng.sentinels {
		var alts []Term
		for _, w := range wrapped {
			alts = append(alts, tOr(tEq(w, T(SErr, s)), app(SBool, "errIs", w, T(SErr, s))))
		}
		fc.assume(st, tEq(app(SBool, "errIs", r, T(SErr, s)), tOr(alts...)))
	}
	for _, o := range fc.eng.errStructs {
		on := "as_" + sanitize(o)
		acc := intLit(0)
		for i := len(wrapped) - 1; i >= 0; i-- {
			a := app(SInt, on, wrapped[i])
			acc = tIte(tNot(tEq(a, intLit(0))), a, acc)
		}
		fc.assume(st, tEq(app(SInt, on, r), acc))
	}
	return r
}

// modelErrorsAs: errors.As(err, &target) for known error struct pointer targets.
func modelErrorsAs(fc *FnCtx, fr *Frame, st *State, instr ssa.Instruction, c *ssa.CallCommon, args []Val, rt types.Type) Val {
	fc.declareSentinels()
	e := termArg(fc, st, args, 0, c.Args[0].Type())
	// target is `any` holding **T
	var tgt Val = args[1]
	var tt types.Type
	if av, ok := tgt.(*AnyVal); ok {
		tgt = av.V
		tt = av.GT
	}
	if tt == nil {
		return fc.fresh("as", SBool)
	}
	pp, ok := unalias(tt).Underlying().(*types.Pointer)
	if !ok {
		return fc.fresh("as", SBool)
	}
	n, isS := isStructPtr(pp.Elem())
	if !isS {
		return fc.fresh("as", SBool)
	}
	key := shortPkg(n.Obj().Pkg().Path()) + "." + n.Obj().Name()
	found := false
	for _, es := range fc.eng.errStructs {
		if es == key {
			found = true
		}
	}
	if !found {
		fc.abstract(instr, "errors.As to unmodelled type "+key)
		return fc.fresh("as", SBool)
	}
	ref := app(SInt, "as_"+sanitize(key), e)
	ok2 := tNot(tEq(ref, intLit(0)))
	// conditional store into target
	old := fc.load(st, tgt, pp.Elem(), instr)
	if ot, isT := old.(Term); isT {
		fc.store(st, tgt, fc.nameTerm("astgt", tIte(ok2, ref, ot)), pp.Elem(), instr)
	}
	return ok2
}

func modelLock(fc *FnCtx, fr *Frame, st *State, instr ssa.Instruction, c *ssa.CallCommon, args []Val, rt types.Type) Val {
	fc.lockAcquire(fr, st, c.Args[0], instr)
	return nil
}

func modelUnlock(fc *FnCtx, fr *Frame, st *State, instr ssa.Instruction, c *ssa.CallCommon, args []Val, rt types.Type) Val {
	fc.lockRelease(fr, st, c.Args[0], instr)
	return nil
}

// sort.Slice(s, less): permutes the elements: length preserved; contents havoc'd subject to the
// (assumed) postcondition that the result is a permutation sorted by less. Only the length fact and
// a "sortedBy" ghost marker are provided; clients needing more use a spec axiom.
func modelSortSlice(fc *FnCtx, fr *Frame, st *State, instr ssa.Instruction, c *ssa.CallCommon, args []Val, rt types.Type) Val {
	var sv Val = args[0]
	var gt types.Type
	if av, ok := sv.(*AnyVal); ok {
		sv = av.V
		gt = av.GT
	}
	s, ok := sv.(Term)
	if !ok || s.Sort != SSlice || gt == nil {
		return nil
	}
	es := sortOf(unalias(gt).Underlying().(*types.Slice).Elem())
	hn := elemHeapName(es)
	h := fc.heapRaw(st, hn, arrSort(SInt, arrSort(SInt, es)))
	oldc := tSelect(h, slArr(s))
	newc := fc.fresh("sorted", arrSort(SInt, es))
	fc.setHeap(st, hn, tStore(h, slArr(s), newc))
	// permutation: witnessed by an index bijection perm on [0,len)
	fc.nfresh++
	perm := fmt.Sprintf("perm_%d", fc.nfresh)
	inv := fmt.Sprintf("perminv_%d", fc.nfresh)
	fc.decls.fun(perm, []string{SInt}, SInt)
	fc.decls.fun(inv, []string{SInt}, SInt)
	// all facts are stated over ABSOLUTE indices a in [off, off+len) of the backing array so that the
	// instantiation patterns contain no arithmetic (z3 normalises sums, which defeats e-matching)
	lo := fc.nameTerm("sortlo", slOff(s)).S
	hi := fc.nameTerm("sorthi", tAdd(slOff(s), slLen(s))).S
	fc.assume(st, T(SBool, fmt.Sprintf("(forall ((a Int)) (! (=> (and (<= %s a) (< a %s)) (and (<= %s (%s a)) (< (%s a) %s) (= (%s (%s a)) a) (= (select %s a) (select %s (%s a))))) :pattern ((%s a)) :pattern ((select %s a))))",
		lo, hi, lo, perm, perm, hi, inv, perm, newc.S, oldc.S, perm, perm, newc.S)))
	fc.assume(st, T(SBool, fmt.Sprintf("(forall ((a Int)) (! (=> (and (<= %s a) (< a %s)) (and (<= %s (%s a)) (< (%s a) %s) (= (%s (%s a)) a))) :pattern ((%s a))))",
		lo, hi, lo, inv, inv, hi, perm, inv, inv)))
	// elements outside the slice are untouched
	fc.assume(st, T(SBool, fmt.Sprintf("(forall ((a Int)) (! (=> (or (< a %s) (<= %s a)) (= (select %s a) (select %s a))) :pattern ((select %s a))))", lo, hi, newc.S, oldc.S, newc.S)))
	// sortedness w.r.t. the comparator when it is a closure comparing heights
	if cv, ok := args[1].(*ClosureVal); ok && cv.Fn != nil && es == SHdr {
		dir := comparatorDirection(cv.Fn)
		if dir != "" {
			fc.assume(st, T(SBool, fmt.Sprintf("(forall ((i Int) (j Int)) (! (=> (and (<= %s i) (< i j) (< j %s)) (%s (height (select %s i)) (height (select %s j)))) :pattern ((select %s i) (select %s j))))",
				lo, hi, dir, newc.S, newc.S, newc.S, newc.S)))
			fc.usedModels["sort.Slice comparator "+dir+" on Height() (read from "+funcDisplayName(cv.Fn)+")"] = true
		} else {
			fc.abstract(instr, "sort.Slice comparator not recognised: order unknown")
		}
	}
	fc.assumptions["sort.Slice: result is a permutation of the input ordered by the comparator (library contract assumed)"] = true
	return nil
}

// comparatorDirection recognises `func(i, j int) bool { return s[i].Height() < s[j].Height() }`.
func comparatorDirection(fn *ssa.Function) string {
	for _, b := range fn.Blocks {
		for _, instr := range b.Instrs {
			if bo, ok := instr.(*ssa.BinOp); ok {
				lc, lok := bo.X.(*ssa.Call)
				rc, rok := bo.Y.(*ssa.Call)
				if lok && rok && lc.Common().IsInvoke() && rc.Common().IsInvoke() &&
					lc.Common().Method.Name() == "Height" && rc.Common().Method.Name() == "Height" {
					// which index feeds which side?
					li := indexParam(lc.Common().Value)
					ri := indexParam(rc.Common().Value)
					if li == 0 && ri == 1 {
						switch bo.Op.String() {
						case "<":
							return "<="
						case ">":
							return ">="
						}
					}
					if li == 1 && ri == 0 {
						switch bo.Op.String() {
						case "<":
							return ">="
						case ">":
							return "<="
						}
					}
				}
			}
		}
	}
	return ""
}

func indexParam(v ssa.Value) int {
	// v = *(&s[idx]) where idx = load of param cell
	u, ok := v.(*ssa.UnOp)
	if !ok {
		return -1
	}
	ia, ok := u.X.(*ssa.IndexAddr)
	if !ok {
		return -1
	}
	l, ok := ia.Index.(*ssa.UnOp)
	if !ok {
		return -1
	}
	al, ok := l.X.(*ssa.Alloc)
	if !ok {
		return -1
	}
	for i, p := range al.Parent().Params {
		if p.Name() == al.Comment {
			return i
		}
	}
	return -1
}

// ---- atomics

func atomicKeyOf(v ssa.Value) string {
	if fa, ok := v.(*ssa.FieldAddr); ok {
		n, s := structOf(fa.X.Type())
		if s != nil && n.Obj().Pkg() != nil {
			return shortPkg(n.Obj().Pkg().Path()) + "." + n.Obj().Name() + "." + s.Field(fa.Field).Name()
		}
	}
	return ""
}

func modelAtomicLoad(fc *FnCtx, fr *Frame, st *State, instr ssa.Instruction, c *ssa.CallCommon, args []Val, rt types.Type) Val {
	recv := termArg(fc, st, args, 0, nil)
	h := fc.heap(st, "AT_u64", SInt)
	cur := tSelect(h, recv)
	fc.assume(st, rangeFact(cur, types.Typ[types.Uint64]))
	// rely: the environment may have changed the value since our last access, within the declared relation
	if ai := fc.eng.atomicFor(atomicKeyOf(c.Args[0])); ai != nil {
		nv := fc.fresh("atload", SInt)
		fc.assume(st, rangeFact(nv, types.Typ[types.Uint64]))
		env := fc.frameEnv(fr, st)
		env.bind(ai.Params[0], cur, types.Typ[types.Uint64])
		env.bind(ai.Params[1], nv, types.Typ[types.Uint64])
		fc.assume(st, fc.evalClauseEnv(st, fr.entry, ai.Inv, env))
		st.heaps["AT_u64"] = tStore(h, recv, nv)
		return nv
	}
	return cur
}

func modelAtomicStore(fc *FnCtx, fr *Frame, st *State, instr ssa.Instruction, c *ssa.CallCommon, args []Val, rt types.Type) Val {
	recv := termArg(fc, st, args, 0, nil)
	v := termArg(fc, st, args, 1, nil)
	h := fc.heap(st, "AT_u64", SInt)
	if ai := fc.eng.atomicFor(atomicKeyOf(c.Args[0])); ai != nil {
		// guarantee: the write must respect the relation w.r.t. ANY value the environment may have produced
		cur := fc.fresh("atcur", SInt)
		fc.assume(st, rangeFact(cur, types.Typ[types.Uint64]))
		env := fc.frameEnv(fr, st)
		env.bind(ai.Params[0], tSelect(h, recv), types.Typ[types.Uint64])
		env.bind(ai.Params[1], cur, types.Typ[types.Uint64])
		fc.assume(st, fc.evalClauseEnv(st, fr.entry, ai.Inv, env))
		env2 := fc.frameEnv(fr, st)
		env2.bind(ai.Params[0], cur, types.Typ[types.Uint64])
		env2.bind(ai.Params[1], v, types.Typ[types.Uint64])
		exempt := false
		if fc.spec != nil {
			for _, r := range fc.spec.Resets {
				if r == ai.Key {
					exempt = true
				}
			}
		}
		if exempt {
			fc.assumptions["RESET: "+fc.name+" (re)initialises "+ai.Key+" outside its rely/guarantee relation (declared by `resets`)"] = true
		} else {
			fc.obligeClause(st, "atomic", "store:"+shortKey(ai.Key), fc.evalClauseEnv(st, fr.entry, ai.Inv, env2), ai.Inv, instr.Pos())
		}
	}
	fc.setHeap(st, "AT_u64", tStore(h, recv, v))
	fc.checkStepInv(fr, st, instr)
	return nil
}

func modelAtomicCAS(fc *FnCtx, fr *Frame, st *State, instr ssa.Instruction, c *ssa.CallCommon, args []Val, rt types.Type) Val {
	recv := termArg(fc, st, args, 0, nil)
	old := termArg(fc, st, args, 1, nil)
	nv := termArg(fc, st, args, 2, nil)
	h := fc.heap(st, "AT_u64", SInt)
	cur := tSelect(h, recv)
	if ai := fc.eng.atomicFor(atomicKeyOf(c.Args[0])); ai != nil {
		c2 := fc.fresh("atcur", SInt)
		fc.assume(st, rangeFact(c2, types.Typ[types.Uint64]))
		env := fc.frameEnv(fr, st)
		env.bind(ai.Params[0], cur, types.Typ[types.Uint64])
		env.bind(ai.Params[1], c2, types.Typ[types.Uint64])
		fc.assume(st, fc.evalClauseEnv(st, fr.entry, ai.Inv, env))
		cur = c2
		// guarantee on success
		s2 := st.clone()
		s2.pc = tAnd(st.pc, tEq(cur, old))
		env2 := fc.frameEnv(fr, st)
		env2.bind(ai.Params[0], cur, types.Typ[types.Uint64])
		env2.bind(ai.Params[1], nv, types.Typ[types.Uint64])
		fc.obligeClause(s2, "atomic", "cas:"+shortKey(ai.Key), fc.evalClauseEnv(st, fr.entry, ai.Inv, env2), ai.Inv, instr.Pos())
	}
	ok := fc.nameTerm("casok", tEq(cur, old))
	fc.setHeap(st, "AT_u64", tStore(h, recv, tIte(ok, nv, cur)))
	fc.checkStepInv(fr, st, instr)
	return ok
}

// atomic.Pointer[T]: set flag + value snapshot (pointees are never mutated after publication: assumption)
func apHeaps(fc *FnCtx, st *State, elem types.Type) (Term, Term, string) {
	srt := sortOf(elem)
	vn := "AP_val_" + sanitize(srt)
	return fc.heap(st, "AP_set", SBool), fc.heap(st, vn, srt), vn
}

func apElem(c *ssa.CallCommon) types.Type {
	// receiver type *atomic.Pointer[T]
	pt := unalias(c.Args[0].Type()).Underlying().(*types.Pointer)
	n := unalias(pt.Elem()).(*types.Named)
	return n.TypeArgs().At(0)
}

func modelAPLoad(fc *FnCtx, fr *Frame, st *State, instr ssa.Instruction, c *ssa.CallCommon, args []Val, rt types.Type) Val {
	recv := termArg(fc, st, args, 0, nil)
	elem := apElem(c)
	set, val, _ := apHeaps(fc, st, elem)
	v := tSelect(val, recv)
	fc.assume(st, fc.typeFact(st, v, elem))
	fc.assumptions["atomic.Pointer pointees are immutable after publication (each Store publishes the address of a fresh local copy)"] = true
	return &PtrVal{Kind: PSnap, IsNil: tNot(tSelect(set, recv)), V: v, Typ: elem}
}

func ptrSnapshot(fc *FnCtx, st *State, p Val, elem types.Type, instr ssa.Instruction) (Term, Term, bool) {
	switch pv := p.(type) {
	case *PtrVal:
		if pv.Kind == PSnap {
			if pv.V == nil {
				zv, _ := fc.zeroValue(st, elem).(Term)
				return pv.IsNil, zv, true
			}
			vt, ok := pv.V.(Term)
			return pv.IsNil, vt, ok
		}
		v := fc.load(st, pv, elem, instr)
		vt, ok := v.(Term)
		return tFalse, vt, ok
	case Term:
		// reference to a boxed value
		v := fc.load(st, pv, elem, instr)
		vt, ok := v.(Term)
		return tEq(pv, intLit(0)), vt, ok
	}
	return Term{}, Term{}, false
}

func modelAPStore(fc *FnCtx, fr *Frame, st *State, instr ssa.Instruction, c *ssa.CallCommon, args []Val, rt types.Type) Val {
	recv := termArg(fc, st, args, 0, nil)
	elem := apElem(c)
	set, val, vn := apHeaps(fc, st, elem)
	isNil, v, ok := ptrSnapshot(fc, st, args[1], elem, instr)
	if !ok {
		fc.abstract(instr, "atomic.Pointer.Store of unmodelled pointer")
		isNil = fc.fresh("apnil", SBool)
		v = fc.fresh("apval", sortOf(elem))
	}
	fc.setHeap(st, "AP_set", tStore(set, recv, tNot(isNil)))
	fc.setHeap(st, vn, tStore(val, recv, tIte(isNil, tSelect(val, recv), v)))
	fc.checkStepInv(fr, st, instr)
	return nil
}

func modelAPCAS(fc *FnCtx, fr *Frame, st *State, instr ssa.Instruction, c *ssa.CallCommon, args []Val, rt types.Type) Val {
	recv := termArg(fc, st, args, 0, nil)
	elem := apElem(c)
	set, val, vn := apHeaps(fc, st, elem)
	oldNil, _, ok1 := ptrSnapshot(fc, st, args[1], elem, instr)
	newNil, nv, ok2 := ptrSnapshot(fc, st, args[2], elem, instr)
	if !ok1 || !ok2 {
		fc.abstract(instr, "atomic.Pointer.CompareAndSwap of unmodelled pointer")
		return fc.fresh("apcas", SBool)
	}
	curSet := tSelect(set, recv)
	// pointer identity is not modelled: with a non-nil expected pointer the outcome is nondeterministic
	nd := fc.fresh("apcasnd", SBool)
	succ := fc.nameTerm("apcasok", tIte(oldNil, tNot(curSet), tAnd(curSet, nd)))
	fc.setHeap(st, "AP_set", tStore(set, recv, tIte(succ, tNot(newNil), curSet)))
	fc.setHeap(st, vn, tStore(val, recv, tIte(tAnd(succ, tNot(newNil)), nv, tSelect(val, recv))))
	fc.checkStepInv(fr, st, instr)
	return succ
}

// staticVarargLen: length of a variadic argument built by the compiler as new [N]T{...}[:] (-1 if unknown).
func staticVarargLen(v ssa.Value) int {
	sl, ok := v.(*ssa.Slice)
	if !ok || sl.Low != nil || sl.High != nil {
		return -1
	}
	al, ok := sl.X.(*ssa.Alloc)
	if !ok {
		return -1
	}
	pt, ok := al.Type().Underlying().(*types.Pointer)
	if !ok {
		return -1
	}
	at, ok := pt.Elem().Underlying().(*types.Array)
	if !ok || at.Len() > 16 {
		return -1
	}
	return int(at.Len())
}
