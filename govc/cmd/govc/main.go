package main

import (
	"fmt"
	"os"

	"golang.org/x/tools/go/packages"
	"golang.org/x/tools/go/ssa"
	"golang.org/x/tools/go/ssa/ssautil"
)

func main() {
	cfg := &packages.Config{Mode: packages.LoadSyntax, Dir: os.Args[1], BuildFlags: []string{"-tags=verif"}}
	pkgs, err := packages.Load(cfg, os.Args[2:]...)
	if err != nil {
		panic(err)
	}
	prog, spkgs := ssautil.Packages(pkgs, ssa.NaiveForm|ssa.GlobalDebug)
	prog.Build()
	for _, p := range spkgs {
		for _, m := range p.Members {
			if f, ok := m.(*ssa.Function); ok {
				f.WriteTo(os.Stdout)
			}
		}
	}
	fmt.Println("ok")
}
