package main

import (
	"encoding/json"
	"flag"
	"fmt"
	"os"
	"path/filepath"
	"regexp"
	"sort"
	"strconv"
	"strings"
	"time"

	"golang.org/x/tools/go/ssa"
)

type knownFinding struct {
	Kind       string // finding | fixed
	Property   string
	Obligation string
	What       string
}

func readKnownFindings(path string) []knownFinding {
	data, err := os.ReadFile(path)
	if err != nil {
		return nil
	}
	var out []knownFinding
	re := regexp.MustCompile(`^(finding|fixed):\s+property=(\S+)\s+(?:commit=\S+\s+)?obligation=(\S+)\s*(.*)$`)
	for _, l := range strings.Split(string(data), "\n") {
		l = strings.TrimSpace(l)
		if l == "" || strings.HasPrefix(l, "#") {
			continue
		}
		m := re.FindStringSubmatch(l)
		if m == nil {
			continue
		}
		out = append(out, knownFinding{m[1], m[2], m[3], m[4]})
	}
	return out
}

func hasProp(props []string, p string) bool {
	for _, x := range props {
		if x == p {
			return true
		}
	}
	return false
}

func specServes(fs *FuncSpec, prop string) bool {
	if hasProp(fs.Props, prop) {
		return true
	}
	check := func(cs []Clause) bool {
		for _, c := range cs {
			if hasProp(c.Tags, prop) {
				return true
			}
		}
		return false
	}
	if check(fs.Requires) || check(fs.Ensures) || check(fs.StepInvs) {
		return true
	}
	for _, l := range fs.Loops {
		if check(l.Invariants) || check(l.Decreases) {
			return true
		}
	}
	return false
}

func main() {
	repo := flag.String("repo", "/repo", "repository working tree")
	prop := flag.String("prop", "", "property id (Cnn); empty = all")
	tier := flag.String("tier", "quick", "quick|thorough")
	outDir := flag.String("out", "/verif/out", "output directory")
	verifDir := flag.String("verif", "/verif", "verif directory (specs, known findings, evidence)")
	only := flag.String("func", "", "verify only this function (debug)")
	dump := flag.Bool("dump", false, "dump obligations (debug)")
	evidence := flag.Bool("evidence", true, "write evidence file")
	listFuncs := flag.Bool("list", false, "list functions")
	closure := flag.Bool("closure", true, "also verify (all clauses of) the non-trusted functions under contract that the property's functions call, transitively")
	uncov := flag.Bool("uncovered", false, "list call sites whose tagged callee precondition no property checks (contract lint), then exit")
	replayFile := flag.String("replay", "", "replay file written for a VIOLATION line: re-check that obligation on the current tree (and re-run its counterexample)")
	flag.Parse()
	start := time.Now()
	replayOb := ""
	if *replayFile != "" {
		raw, err := os.ReadFile(*replayFile)
		if err != nil {
			fmt.Fprintf(os.Stderr, "govc: %v\n", err)
			os.Exit(2)
		}
		var content map[string]any
		if err := json.Unmarshal(raw, &content); err != nil {
			fmt.Fprintf(os.Stderr, "govc: %v\n", err)
			os.Exit(2)
		}
		replayOb, _ = content["obligation"].(string)
		if p, ok := content["property"].(string); ok && *prop == "" {
			*prop = p
		}
		if i := strings.Index(replayOb, "#"); i > 0 {
			*only = replayOb[:i]
		} else {
			fmt.Printf("replay: %s does not name an obligation of a function (%v)\n", *replayFile, content["error"])
			os.Exit(1)
		}
		*evidence = false
		fmt.Printf("replay: re-checking %s on the current tree\n", replayOb)
	}
	seed := 0
	if s := os.Getenv("VERIF_SEED"); s != "" {
		seed, _ = strconv.Atoi(s)
	}
	eng, err := loadEngine(*repo, filepath.Join(*verifDir, "specs"))
	if eng != nil {
		eng.activeProp = *prop
		eng.applyMode()
	}
	if err != nil {
		fmt.Fprintf(os.Stderr, "govc: load failed: %v\n", err)
		// a tree that does not build cannot be verified: report as violation of the requested property
		if *prop != "" {
			rp := writeReplayFile(*outDir, *prop, "load", map[string]any{"obligation": "load", "error": err.Error()})
			fmt.Printf("VIOLATION property=%s replay=%s no-failing-input-found\n", *prop, rp)
		}
		os.Exit(1)
	}
	if *listFuncs {
		var ns []string
		for n := range eng.funcs {
			ns = append(ns, n)
		}
		sort.Strings(ns)
		for _, n := range ns {
			fmt.Println(n)
		}
		return
	}
	timeout := 10
	cross := false
	if *tier == "thorough" {
		timeout = 60
		cross = true
	}
	// select functions
	var names []string
	for n, fs := range eng.specs {
		if *only != "" && n != *only {
			continue
		}
		if fs.Trusted {
			continue
		}
		if *prop == "" || *only != "" || specServes(fs, *prop) {
			names = append(names, n)
		}
	}
	// Call closure: a property's proof uses the contracts of everything its functions call. Those callees
	// are verified in the same run (all their clauses, whatever property they are tagged with), so that a
	// change anywhere below a property's functions fails that property's check and not only the check of
	// the property the callee was written for.
	viaClosure := map[string]bool{}
	if *prop != "" && *only == "" && *closure {
		seen := map[string]bool{}
		work := append([]string(nil), names...)
		for _, n := range names {
			seen[n] = true
		}
		for len(work) > 0 {
			n := work[len(work)-1]
			work = work[:len(work)-1]
			fn := eng.funcs[n]
			if fn == nil {
				continue
			}
			var visit func(f *ssa.Function, depth int)
			visit = func(f *ssa.Function, depth int) {
				for _, b := range f.Blocks {
					for _, in := range b.Instrs {
						var callee *ssa.Function
						switch x := in.(type) {
						case ssa.CallInstruction:
							if !x.Common().IsInvoke() {
								switch v := x.Common().Value.(type) {
								case *ssa.Function:
									callee = v
								case *ssa.MakeClosure:
									callee, _ = v.Fn.(*ssa.Function)
								}
							}
						case *ssa.MakeClosure:
							callee, _ = x.Fn.(*ssa.Function)
						}
						if callee == nil {
							continue
						}
						cn := funcDisplayName(callee)
						cs := eng.specs[cn]
						if cs == nil {
							continue
						}
						if cs.Inline && depth < 3 {
							visit(callee, depth+1) // inlined callees: look through
							continue
						}
						if cs.Trusted || seen[cn] {
							continue
						}
						seen[cn] = true
						viaClosure[cn] = true
						names = append(names, cn)
						work = append(work, cn)
					}
				}
			}
			visit(fn, 0)
		}
	}
	sort.Strings(names)
	var all []*Obligation
	var fcs []*FnCtx
	var bindFailures []string
	bindFailures = append(bindFailures, eng.bindErrors...)
	for _, n := range names {
		fc, err := eng.verifyFunction(n, eng.specs[n])
		if err != nil {
			bindFailures = append(bindFailures, err.Error())
			continue
		}
		fcs = append(fcs, fc)
		for _, ob := range fc.obligations {
			if replayOb != "" {
				if ob.Name == replayOb {
					all = append(all, ob)
				}
				continue
			}
			if *prop == "" || *only != "" || hasProp(ob.Props, *prop) || (viaClosure[n] && !hasProp(ob.Props, "local")) {
				all = append(all, ob)
			}
		}
	}
	if *uncov {
		var us []string
		for u := range eng.uncovered {
			us = append(us, u)
		}
		sort.Strings(us)
		for _, u := range us {
			fmt.Println("UNCOVERED", u)
		}
		fmt.Printf("uncovered call-site preconditions: %d\n", len(us))
		if len(us) > 0 {
			os.Exit(1)
		}
		os.Exit(0)
	}
	if replayOb != "" && len(all) == 0 && len(bindFailures) == 0 {
		fmt.Printf("replay: obligation %s is not generated from the current tree any more\n", replayOb)
		os.Exit(0)
	}
	qdir := filepath.Join(*outDir, "queries", *prop)
	if replayOb != "" {
		qdir = filepath.Join(*outDir, "queries", "replay")
	}
	os.RemoveAll(qdir)
	solveAll(all, qdir, timeout, cross, 12)
	// Obligations nobody decided within the budget are tried once more, fewer at a time and with three
	// times the budget: a loaded machine must not turn into a false alarm (a real failure stays undecided
	// or sat and only costs the extra time).
	var retry []*Obligation
	knownNames := map[string]bool{}
	for _, k := range readKnownFindings(filepath.Join(*verifDir, "known_findings.txt")) {
		if k.Kind == "finding" {
			knownNames[k.Obligation] = true
		}
	}
	for _, ob := range all {
		if ob.Status == "unknown" && !ob.Cover && !knownNames[ob.Name] {
			retry = append(retry, ob)
		}
	}
	if len(retry) > 0 && os.Getenv("GOVC_NO_RETRY") == "" { // the must-fail corpus expects failures: no second chance needed there
		solveAll(retry, qdir, timeout*3, cross, 4)
	}
	if *dump {
		for _, ob := range all {
			fmt.Printf("%-12s %-8s %6dms %s  [%s] %s\n", ob.Status, ob.Solver, ob.Ms, ob.Name, ob.Pos, ob.Src)
		}
		for _, fc := range fcs {
			for _, a := range fc.abstracted {
				fmt.Printf("ABSTRACTED %s: %s\n", fc.name, a)
			}
			for h := range fc.havocCallees {
				fmt.Printf("HAVOC-CALLEE %s: %s\n", fc.name, h)
			}
		}
	}
	code := report(eng, *prop, *tier, seed, all, fcs, bindFailures, *outDir, *verifDir, start, *evidence, *repo)
	os.Exit(code)
}

func writeReplayFile(outDir, prop, name string, content map[string]any) string {
	dir := filepath.Join(outDir, "replay", prop)
	os.MkdirAll(dir, 0o755)
	p := filepath.Join(dir, sanitizeFile(name)+".json")
	if _, has := content["property"]; !has {
		content["property"] = prop
	}
	data, _ := json.MarshalIndent(content, "", " ")
	os.WriteFile(p, data, 0o644)
	return p
}

func report(eng *Engine, prop, tier string, seed int, obs []*Obligation, fcs []*FnCtx, bindFailures []string,
	outDir, verifDir string, start time.Time, writeEvidence bool, repo string) int {
	known := readKnownFindings(filepath.Join(verifDir, "known_findings.txt"))
	isKnown := func(name string) *knownFinding {
		for i := range known {
			// an obligation recorded as a finding is that finding under whichever property's run reaches it
			// (runs include the call closure of their property)
			if known[i].Kind == "finding" && known[i].Obligation == name {
				return &known[i]
			}
		}
		return nil
	}
	violations := 0
	nOb, nDis := 0, 0
	var samples []map[string]any
	var knownHit []string
	var notDischarged []string
	var coverWarn []string
	solverMs := int64(0)
	bySolver := map[string]int{}
	var lines []string
	for _, ob := range obs {
		solverMs += ob.Ms
		if ob.Cover {
			switch ob.Status {
			case "cover-ok":
			case "cover-vacuous":
				violations++
				rp := writeReplayFile(outDir, prop, ob.Name, map[string]any{"obligation": ob.Name, "kind": "vacuity", "explanation": "the assumptions at this point are contradictory (cover query is unsat): proofs beyond it would be vacuous", "pos": ob.Pos, "src": ob.Src})
				lines = append(lines, fmt.Sprintf("VIOLATION property=%s replay=%s obligation=%s (vacuous: %s) no-failing-input-found", prop, rp, ob.Name, ob.Src))
			default:
				coverWarn = append(coverWarn, ob.Name)
			}
			continue
		}
		nOb++
		bySolver[ob.Solver]++
		if len(samples) < 12 {
			samples = append(samples, map[string]any{"obligation": ob.Name, "status": ob.Status, "solver": ob.Solver, "ms": ob.Ms, "at": ob.Pos, "clause": ob.Src})
		}
		if ob.Status == "discharged" {
			nDis++
			continue
		}
		if kf := isKnown(ob.Name); kf != nil {
			knownHit = append(knownHit, ob.Name)
			// the line names the property the finding is listed under; a run of another property meets it
			// only through the call closure and says so
			via := ""
			if kf.Property != prop {
				via = fmt.Sprintf(" (met in the call closure of %s)", prop)
			}
			lines = append(lines, fmt.Sprintf("KNOWN-FINDING: property=%s %s%s %s", kf.Property, ob.Name, via, kf.What))
			nOb-- // not part of the claim
			continue
		}
		violations++
		notDischarged = append(notDischarged, ob.Name)
		content := map[string]any{"obligation": ob.Name, "status": ob.Status, "solver": ob.Solver, "pos": ob.Pos, "clause": ob.Src, "note": ob.Note,
			"solver_outputs": ob.Outputs, "query_file": filepath.Join(outDir, "queries", prop, sanitizeFile(ob.Name)+".smt2")}
		suffix := " no-failing-input-found"
		if ob.Model != "" {
			content["model"] = extractInputs(ob)
			content["raw_model"] = ob.Model
			if verdict, test, out := tryReplay(eng, ob, repo, outDir); verdict != "" {
				content["replay_verdict"] = verdict
				content["replay_test"] = test
				content["replay_output"] = out
				if verdict == "reproduced" {
					suffix = ""
				}
			}
		} else {
			content["explanation"] = "solver returned " + ob.Status + " (no model): obligation undischarged"
		}
		rp := writeReplayFile(outDir, prop, ob.Name, content)
		lines = append(lines, fmt.Sprintf("VIOLATION property=%s replay=%s obligation=%s status=%s%s", prop, rp, ob.Name, ob.Status, suffix))
	}
	for _, bf := range bindFailures {
		violations++
		rp := writeReplayFile(outDir, prop, "bind-"+fmt.Sprint(violations), map[string]any{"obligation": "binding", "error": bf})
		lines = append(lines, fmt.Sprintf("VIOLATION property=%s replay=%s binding-failure: %s no-failing-input-found", prop, rp, bf))
	}
	if nOb == 0 && len(knownHit) == 0 {
		violations++
		rp := writeReplayFile(outDir, prop, "no-obligations", map[string]any{"obligation": "none", "error": "no obligations were generated for this property (vacuity guard)"})
		lines = append(lines, fmt.Sprintf("VIOLATION property=%s replay=%s no obligations generated no-failing-input-found", prop, rp))
	}
	for _, l := range lines {
		fmt.Println(l)
	}
	// evidence
	if writeEvidence && prop != "" {
		var funcs []string
		assumptions := map[string]bool{}
		var abstracted []string
		havoc := map[string]bool{}
		assumedSpecs := map[string]bool{}
		modelsUsed := map[string]bool{}
		for _, fc := range fcs {
			funcs = append(funcs, fc.name)
			for a := range fc.assumptions {
				assumptions[a] = true
			}
			for _, a := range fc.abstracted {
				abstracted = append(abstracted, fc.name+": "+a)
			}
			for h := range fc.havocCallees {
				havoc[fc.name+" -> "+h] = true
			}
			for s := range fc.assumedSpecs {
				assumedSpecs[s] = true
			}
			for m := range fc.usedModels {
				modelsUsed[m] = true
			}
		}
		sort.Strings(funcs)
		ev := map[string]any{
			"property_id": prop, "tier": tier, "seed": seed, "level": "proof",
			"wall_s": time.Since(start).Seconds(), "violations": violations,
			"coverage": map[string]any{
				"obligations": nOb, "discharged": nDis,
				"checker_cmd":  fmt.Sprintf("bin/govc -repo %s -prop %s -tier %s (SMT queries raced on z3 4.8.12, z3-new 5.1.0, cvc5 1.0)", repo, prop, tier),
				"trusted_base": []string{"go/types + go/ssa (x/tools v0.50.0) faithful SSA of /repo", "govc VC generator (validated by must-fail corpus + cover queries)", "SMT solvers z3/cvc5", "Hoare logic with cut-point invariants; Owicki-Gries / rely-guarantee for lock, channel and atomic invariants"},
				"samples":      samples, "functions_under_contract": funcs,
				"discharged_by_solver": bySolver, "solver_time_s": float64(solverMs) / 1000.0,
				"known_finding_obligations": knownHit, "undischarged": notDischarged, "cover_inconclusive": coverWarn,
				"abstracted_instructions": abstracted, "havoc_callees": sortedKeys(havoc),
				"assumed_contracts": sortedKeys(assumedSpecs), "library_models": sortedKeys(modelsUsed),
				"integer_semantics": "Go integers are mathematical Int with exact 64-bit wrap-around for + - and constant *, truncated / and % ; spec arithmetic is mathematical",
			},
			"assumptions": sortedKeys(assumptions),
		}
		// merge static per-property notes
		if notes, err := os.ReadFile(filepath.Join(verifDir, "specs", "notes", prop+".json")); err == nil {
			var extra map[string]any
			if json.Unmarshal(notes, &extra) == nil {
				cov := ev["coverage"].(map[string]any)
				for k, v := range extra {
					if k == "assumptions" {
						if arr, ok := v.([]any); ok {
							as := ev["assumptions"].([]string)
							for _, a := range arr {
								as = append(as, fmt.Sprint(a))
							}
							ev["assumptions"] = as
						}
						continue
					}
					cov[k] = v
				}
			}
		}
		data, _ := json.MarshalIndent(ev, "", " ")
		os.MkdirAll(filepath.Join(verifDir, "evidence"), 0o755)
		os.WriteFile(filepath.Join(verifDir, "evidence", prop+".json"), data, 0o644)
	}
	fmt.Printf("govc: property=%s tier=%s obligations=%d discharged=%d known=%d violations=%d wall=%.1fs\n", prop, tier, nOb, nDis, len(knownHit), violations, time.Since(start).Seconds())
	if violations > 0 {
		return 1
	}
	return 0
}

// extractInputs pulls the values of named input symbols out of a solver model.
func extractInputs(ob *Obligation) map[string]string {
	out := map[string]string{}
	re := regexp.MustCompile(`\(define-fun\s+(\S+)\s+\(\)\s+(\S+)\s+([^\n]*?)\)\s*$`)
	lines := strings.Split(ob.Model, "\n")
	for i := 0; i < len(lines); i++ {
		l := strings.TrimSpace(lines[i])
		if strings.HasPrefix(l, "(define-fun") && !strings.HasSuffix(l, ")") && i+1 < len(lines) {
			l = l + " " + strings.TrimSpace(lines[i+1])
		}
		if m := re.FindStringSubmatch(l); m != nil {
			name := m[1]
			if strings.HasPrefix(name, "in_") || strings.HasPrefix(name, "glob_") || strings.HasPrefix(name, "now") || strings.HasPrefix(name, "ghost_") {
				out[name] = m[3]
			}
		}
	}
	return out
}
