package main

import (
	"fmt"
	"go/constant"
	"go/token"
	"go/types"
	"sort"
	"strings"

	"golang.org/x/tools/go/ssa"
)

// ---------------------------------------------------------------------------
// Values

type Val interface{}

type PtrKind int

const (
	PCell PtrKind = iota
	PField
	PElem
	PArrElem
	PBox
	PSnap
)

type cellKey struct {
	frame int
	v     any
}

type PtrVal struct {
	Kind  PtrKind
	Cell  cellKey
	Idx   int
	Obj   Term
	Heap  string
	HSort string // element sort of the heap
	Arr   Term
	I     Term
	IsNil Term
	V     Val
	Typ   types.Type // pointee type
}

type TupleVal struct{ Elems []Val }

type ClosureVal struct {
	Fn       *ssa.Function
	Bindings []Val
}

// AnyVal is a value boxed into a non-error interface (any, fmt args).
type AnyVal struct {
	V  Val
	GT types.Type
}

// ArrVal is a Go-side model of a small fixed array (varargs arrays).
type ArrVal struct{ Elems []Val }

// Poison marks a value the engine could not model.
type Poison struct{ Why string }

type State struct {
	pc    Term
	cells map[cellKey]Val
	heaps map[string]Term
	why   string // for panic states: where the panic originates
}

func (s *State) clone() *State {
	n := &State{pc: s.pc, why: s.why, cells: make(map[cellKey]Val, len(s.cells)), heaps: make(map[string]Term, len(s.heaps))}
	for k, v := range s.cells {
		n.cells[k] = v
	}
	for k, v := range s.heaps {
		n.heaps[k] = v
	}
	return n
}

// ---------------------------------------------------------------------------
// Obligations

type Obligation struct {
	Name    string
	Kind    string
	Props   []string
	Func    string
	Pos     string
	Src     string
	NAssert int  // prefix of fc.assertions to include
	PC      Term
	Goal    Term
	Cover   bool // expect sat
	Note    string
	fc      *FnCtx
	// results
	Status  string // discharged | failed | unknown | cover-ok | cover-vacuous
	Solver  string
	Ms      int64
	Model   string
	ModelQuery string // query the model belongs to when it is only a candidate (quantifier-free weakening)
	Outputs map[string]string
}

// ---------------------------------------------------------------------------
// Function context

type deferEntry struct {
	call  *ssa.CallCommon
	args  []Val
	fnVal Val
	flag  cellKey
	instr *ssa.Defer
}

type retInfo struct {
	st   *State
	vals []Val
}

type Frame struct {
	id      int
	fn      *ssa.Function
	spec    *FuncSpec
	env     map[ssa.Value]Val
	defers  []*deferEntry
	rets    []retInfo
	panics  []*State
	invokeN map[string]int
	depth   int
	top     bool
	ghostRes map[string]Term // pre-declared ghost call results: "Method#k" -> term
	ghostIdx map[string]int  // tuple element bound by the ghost
	loopOrd map[*ssa.BasicBlock]int
	entry   *State
}

type FnCtx struct {
	eng         *Engine
	fn          *ssa.Function
	name        string
	spec        *FuncSpec
	decls       *Decls
	assertions  []string
	obligations []*Obligation
	nfresh      int
	nframes     int
	entry       *State
	kindCount   map[string]int
	abstracted  []string
	havocCallees map[string]bool
	assumedSpecs map[string]bool
	usedModels  map[string]bool
	assumptions map[string]bool
	topFrame    *Frame
	sentinelsDeclared bool
	written     map[string]bool // heaps written during execution (top frame incl. inlined)
	ghostNames  map[string]Term // names bound to results of calls made by the function under verification
	ghostKeys   map[string]string // ghost name -> call key (for called(name))
	inputSyms   []string
	reqStart, reqEnd int          // assertions [reqStart, reqEnd) are the function's preconditions
	spawned     []map[string]bool // write sets of goroutines started without a contract (havoc'd at spawn and at every Wait)
	beforeHits  map[int]bool      // before-clauses (by index) that matched at least one call site
	ghostHits   map[string]bool   // ghost bindings (by key) that met their call site
}

func newFnCtx(e *Engine, fn *ssa.Function, spec *FuncSpec) *FnCtx {
	return &FnCtx{eng: e, fn: fn, name: funcDisplayName(fn), spec: spec, decls: newDecls(),
		kindCount: map[string]int{}, havocCallees: map[string]bool{}, assumedSpecs: map[string]bool{},
		usedModels: map[string]bool{}, assumptions: map[string]bool{}, written: map[string]bool{}, ghostNames: map[string]Term{}, ghostKeys: map[string]string{}}
}

func (fc *FnCtx) fresh(prefix, sort string) Term {
	fc.nfresh++
	return fc.decls.constant(fmt.Sprintf("%s_%d", sanitize(prefix), fc.nfresh), sort)
}

func (fc *FnCtx) assume(st *State, fact Term) {
	if fact.S == "true" {
		return
	}
	fc.assertions = append(fc.assertions, tImp(st.pc, fact).S)
}

func (fc *FnCtx) define(t Term) { // unconditional definitional assertion
	if t.S == "true" {
		return
	}
	fc.assertions = append(fc.assertions, t.S)
}

// name a term by a fresh constant to keep formulas small.
func (fc *FnCtx) nameTerm(prefix string, t Term) Term {
	// an if-then-else is named however short it is: it may end up inside a quantifier pattern, where
	// the solvers do not accept it
	if len(t.S) < 40 && !strings.HasPrefix(t.S, "(ite ") {
		return t
	}
	c := fc.fresh(prefix, t.Sort)
	fc.define(tEq(c, t))
	return c
}

func (fc *FnCtx) abstract(instr ssa.Instruction, why string) {
	pos := ""
	if instr != nil {
		pos = fc.eng.prog.Fset.Position(instr.Pos()).String()
	}
	fc.abstracted = append(fc.abstracted, fmt.Sprintf("%s: %s", pos, why))
}

func (fc *FnCtx) posOf(p token.Pos) string {
	if !p.IsValid() {
		return ""
	}
	ps := fc.eng.prog.Fset.Position(p)
	return fmt.Sprintf("%s:%d", strings.TrimPrefix(ps.Filename, fc.eng.repo+"/"), ps.Line)
}

func (fc *FnCtx) oblige(st *State, kind, detail string, goal Term, pos token.Pos, props []string, src string) *Obligation {
	key := kind
	if detail != "" {
		key = kind + ":" + detail
	}
	fc.kindCount[key]++
	name := fmt.Sprintf("%s#%s#%d", fc.name, key, fc.kindCount[key])
	if detail != "" && isNamedDetail(kind) {
		// named clauses: single instance keeps a stable name without ordinal
		if fc.kindCount[key] == 1 {
			name = fmt.Sprintf("%s#%s", fc.name, key)
		}
	}
	if props == nil && fc.spec != nil {
		props = fc.spec.Props
	}
	ob := &Obligation{Name: name, Kind: kind, Props: props, Func: fc.name, Pos: fc.posOf(pos), Src: src,
		NAssert: len(fc.assertions), PC: st.pc, Goal: goal, fc: fc}
	fc.obligations = append(fc.obligations, ob)
	return ob
}

func isNamedDetail(kind string) bool {
	switch kind {
	case "ensures", "requires", "inv", "call", "frame", "stepinv", "chaninv", "lockinv", "atomic":
		return true
	}
	return false
}

// ---------------------------------------------------------------------------
// Heap access

func (fc *FnCtx) heap(st *State, name, elemSort string) Term {
	return fc.heapRaw(st, name, arrSort(SInt, elemSort))
}

func (fc *FnCtx) heapRaw(st *State, name, fullSort string) Term {
	if h, ok := st.heaps[name]; ok {
		return h
	}
	if _, pending := st.heaps[name+"$pending"]; pending {
		delete(st.heaps, name+"$pending")
		h := fc.fresh("hv_"+name, fullSort)
		st.heaps[name] = h
		return h
	}
	h := fc.decls.constant(name+"_0", fullSort)
	st.heaps[name] = h
	return h
}

func (fc *FnCtx) setHeap(st *State, name string, v Term) {
	st.heaps[name] = v
	fc.written[name] = true
}

var keyNow = cellKey{0, "$now"}
var keyAlloc = cellKey{0, "$allocTop"}
var keyPanicking = cellKey{0, "$panicking"}

func (fc *FnCtx) allocTop(st *State) Term {
	if v, ok := st.cells[keyAlloc]; ok {
		return v.(Term)
	}
	c := fc.decls.constant("allocTop_0", SInt)
	fc.define(tLe(intLit(1), c))
	st.cells[keyAlloc] = c
	return c
}

func (fc *FnCtx) allocRef(st *State) Term {
	top := fc.allocTop(st)
	r := fc.nameTerm("ref", tAdd(top, intLit(1)))
	st.cells[keyAlloc] = r
	return r
}

func (fc *FnCtx) nowTerm(st *State) Term {
	if v, ok := st.cells[keyNow]; ok {
		return v.(Term)
	}
	c := fc.decls.constant("now_0", SInt)
	st.cells[keyNow] = c
	return c
}

func (fc *FnCtx) advanceClock(st *State) Term {
	old := fc.nowTerm(st)
	n := fc.fresh("now", SInt)
	fc.assume(st, tGe(n, old))
	st.cells[keyNow] = n
	return n
}

// zeroValue returns the zero value for a Go type.
func (fc *FnCtx) zeroValue(st *State, t types.Type) Val {
	t = unalias(t)
	if n, ok := isStructVal(t); ok && namedPath(t) != "time.Time" {
		return fc.allocObj(st, n)
	}
	switch sortOf(t) {
	case SBool:
		return tFalse
	case SStr:
		return T(SStr, "emptyStr")
	case SErr:
		return T(SErr, "nilErr")
	case SHdr:
		return T(SHdr, "zeroHdr")
	case SBytes:
		return T(SBytes, "nilBytes")
	case SSlice:
		return nilSlice
	case SKey:
		return T(SKey, "emptyKey")
	}
	if _, ok := t.Underlying().(*types.Array); ok {
		a := t.Underlying().(*types.Array)
		if a.Len() <= 16 {
			av := &ArrVal{}
			for i := int64(0); i < a.Len(); i++ {
				av.Elems = append(av.Elems, fc.zeroValue(st, a.Elem()))
			}
			return av
		}
	}
	return intLit(0)
}

func isRepoPkg(p *types.Package) bool {
	return p != nil && strings.HasPrefix(p.Path(), repoModule)
}

// nested struct tagging: owner/tag UFs make nested refs of different fields/owners distinct.
var nestedTags = map[string]int{}

func (fc *FnCtx) nestedFact(st *State, inner, owner Term, heap string) {
	tag, ok := nestedTags[heap]
	if !ok {
		tag = len(nestedTags) + 1
		nestedTags[heap] = tag
	}
	fc.decls.fun("ownerOf", []string{SInt}, SInt)
	fc.decls.fun("tagOf", []string{SInt}, SInt)
	fc.assume(st, tAnd(tEq(app(SInt, "ownerOf", inner), owner), tEq(app(SInt, "tagOf", inner), intLit(int64(tag)))))
}

func isNestedStructField(ft types.Type) (*types.Named, bool) {
	ft = unalias(ft)
	if isOpaqueValueStruct(ft) {
		return nil, false
	}
	n, ok := ft.(*types.Named)
	if !ok {
		return nil, false
	}
	if _, ok := n.Underlying().(*types.Struct); !ok {
		return nil, false
	}
	return n, true
}

func (fc *FnCtx) allocObj(st *State, n *types.Named) Term {
	r := fc.allocRef(st)
	fc.initObj(st, n, r, 0)
	if n.Obj().Pkg() != nil && isRepoPkg(n.Obj().Pkg()) {
		fc.decls.fun("dynType", []string{SInt}, SInt)
		fc.assume(st, tEq(app(SInt, "dynType", r), intLit(int64(dynTypeID(n)))))
	}
	return r
}

func (fc *FnCtx) initObj(st *State, n *types.Named, r Term, depth int) {
	s, ok := n.Underlying().(*types.Struct)
	if !ok || depth > 3 {
		return
	}
	if n.Obj().Pkg() != nil && !isRepoPkg(n.Obj().Pkg()) && n.Obj().Pkg().Path() != "sync/atomic" {
		return // fields of foreign structs are not modelled
	}
	for i := 0; i < s.NumFields(); i++ {
		f := s.Field(i)
		hn := structHeapName(n, f.Name())
		if nn, ok := isNestedStructField(f.Type()); ok {
			inner := fc.allocRef(st)
			h := fc.heap(st, hn, SInt)
			fc.setHeap(st, hn, tStore(h, r, inner))
			fc.nestedFact(st, inner, r, hn)
			fc.initObj(st, nn, inner, depth+1)
			continue
		}
		zv := fc.zeroValue(st, f.Type())
		zt, ok := zv.(Term)
		if !ok {
			continue
		}
		h := fc.heap(st, hn, zt.Sort)
		fc.setHeap(st, hn, tStore(h, r, zt))
	}
}

// copyStruct copies the contents of struct object src into dst.
func (fc *FnCtx) copyStruct(st *State, n *types.Named, dst, src Term, depth int) {
	s, ok := n.Underlying().(*types.Struct)
	if !ok || depth > 3 {
		return
	}
	for i := 0; i < s.NumFields(); i++ {
		f := s.Field(i)
		hn := structHeapName(n, f.Name())
		if nn, ok := isNestedStructField(f.Type()); ok {
			h := fc.heap(st, hn, SInt)
			fc.copyStruct(st, nn, tSelect(h, dst), tSelect(h, src), depth+1)
			continue
		}
		srt := sortOf(f.Type())
		h := fc.heap(st, hn, srt)
		fc.setHeap(st, hn, tStore(h, dst, tSelect(h, src)))
	}
}

// snapshotStruct makes a fresh object holding a copy of src (struct value semantics).
func (fc *FnCtx) snapshotStruct(st *State, n *types.Named, src Term) Term {
	r := fc.allocRef(st)
	fc.snapInit(st, n, r, src, 0)
	return r
}

func (fc *FnCtx) snapInit(st *State, n *types.Named, dst, src Term, depth int) {
	s, ok := n.Underlying().(*types.Struct)
	if !ok || depth > 3 {
		return
	}
	for i := 0; i < s.NumFields(); i++ {
		f := s.Field(i)
		hn := structHeapName(n, f.Name())
		if nn, ok := isNestedStructField(f.Type()); ok {
			inner := fc.allocRef(st)
			h := fc.heap(st, hn, SInt)
			srcInner := tSelect(h, src)
			fc.setHeap(st, hn, tStore(h, dst, inner))
			fc.nestedFact(st, inner, dst, hn)
			fc.snapInit(st, nn, inner, srcInner, depth+1)
			continue
		}
		srt := sortOf(f.Type())
		h := fc.heap(st, hn, srt)
		fc.setHeap(st, hn, tStore(h, dst, tSelect(h, src)))
	}
}

// havocValue produces an unconstrained value of Go type t (with typing facts).
func (fc *FnCtx) havocValue(st *State, prefix string, t types.Type) Val {
	t = unalias(t)
	if tup, ok := t.(*types.Tuple); ok {
		tv := &TupleVal{}
		for i := 0; i < tup.Len(); i++ {
			tv.Elems = append(tv.Elems, fc.havocValue(st, fmt.Sprintf("%s_%d", prefix, i), tup.At(i).Type()))
		}
		return tv
	}
	if _, ok := t.Underlying().(*types.Signature); ok {
		return &Poison{"unknown func value"}
	}
	v := fc.fresh(prefix, sortOf(t))
	fc.assume(st, fc.typeFact(st, v, t))
	return v
}

// typeFact gives the facts known of any well-typed value of type t.
func (fc *FnCtx) typeFact(st *State, v Term, t types.Type) Term {
	if v.Sort == SErr {
		// error values only refer to already allocated error objects
		fc.declareSentinels()
		f := tTrue
		for _, es := range fc.eng.errStructs {
			f = tAnd(f, tLe(intLit(0), app(SInt, "as_"+sanitize(es), v)), tLe(app(SInt, "as_"+sanitize(es), v), fc.allocTop(st)))
		}
		return f
	}
	if t == nil {
		return tTrue
	}
	f := rangeFact(v, t)
	if v.Sort == SInt {
		t = unalias(t)
		switch t.Underlying().(type) {
		case *types.Pointer, *types.Map, *types.Chan, *types.Struct:
			f = tAnd(f, tLe(intLit(0), v), tLe(v, fc.allocTop(st)))
		}
	}
	if v.Sort == SSlice {
		f = tAnd(f, tLe(slArr(v), fc.allocTop(st)))
	}
	return f
}

// ---------------------------------------------------------------------------
// load / store

func (fc *FnCtx) load(st *State, p Val, pointee types.Type, instr ssa.Instruction) Val {
	switch pv := p.(type) {
	case *PtrVal:
		switch pv.Kind {
		case PCell:
			if v, ok := st.cells[pv.Cell]; ok {
				return v
			}
			// uninitialised cell: global or freevar -> symbolic initial value
			if g, ok := pv.Cell.v.(*ssa.Global); ok {
				v := fc.globalInit(st, g)
				st.cells[pv.Cell] = v
				return v
			}
			v := fc.havocValue(st, "cell", pointee)
			st.cells[pv.Cell] = v
			return v
		case PField:
			h := fc.heap(st, pv.Heap, pv.HSort)
			v := tSelect(h, pv.Obj)
			fc.assume(st, fc.typeFact(st, v, pointee))
			return v
		case PElem:
			h := fc.heapRaw(st, pv.Heap, arrSort(SInt, arrSort(SInt, pv.HSort)))
			v := tSelect(tSelect(h, pv.Arr), pv.I)
			fc.assume(st, fc.typeFact(st, v, pointee))
			return v
		case PArrElem:
			if av, ok := st.cells[pv.Cell].(*ArrVal); ok && pv.Idx < len(av.Elems) {
				return av.Elems[pv.Idx]
			}
			return fc.havocValue(st, "arrelem", pointee)
		case PBox:
			h := fc.heap(st, pv.Heap, pv.HSort)
			v := tSelect(h, pv.Obj)
			fc.assume(st, fc.typeFact(st, v, pointee))
			return v
		case PSnap:
			return pv.V
		}
	case Term:
		// pointer represented as a reference
		if n, ok := isStructVal(pointee); ok && namedPath(pointee) != "time.Time" {
			return fc.snapshotStruct(st, n, pv)
		}
		srt := sortOf(pointee)
		h := fc.heap(st, boxHeapName(srt), srt)
		v := tSelect(h, pv)
		fc.assume(st, fc.typeFact(st, v, pointee))
		return v
	case *Poison:
		return fc.havocValue(st, "poisonload", pointee)
	}
	fc.abstract(instr, fmt.Sprintf("load through unsupported pointer %T", p))
	return fc.havocValue(st, "load", pointee)
}

func (fc *FnCtx) store(st *State, p Val, v Val, pointee types.Type, instr ssa.Instruction) {
	switch pv := p.(type) {
	case *PtrVal:
		switch pv.Kind {
		case PCell:
			st.cells[pv.Cell] = v
			return
		case PField:
			vt, ok := v.(Term)
			if av, isAny := v.(*AnyVal); isAny && !ok && pv.HSort == SInt {
				if ht, isH := av.V.(Term); isH && ht.Sort == SHdr {
					fc.declareAnyHdr()
					vt, ok = app(SInt, "anyHdr", ht), true
				}
			}
			if !ok {
				fc.abstract(instr, fmt.Sprintf("store of non-term %T into field heap %s", v, pv.Heap))
				vt = fc.fresh("hv", pv.HSort)
			}
			h := fc.heap(st, pv.Heap, pv.HSort)
			fc.setHeap(st, pv.Heap, tStore(h, pv.Obj, vt))
			return
		case PElem:
			vt, ok := v.(Term)
			if !ok {
				fc.abstract(instr, fmt.Sprintf("store of non-term %T into element heap", v))
				vt = fc.fresh("hv", pv.HSort)
			}
			h := fc.heapRaw(st, pv.Heap, arrSort(SInt, arrSort(SInt, pv.HSort)))
			fc.setHeap(st, pv.Heap, tStore(h, pv.Arr, tStore(tSelect(h, pv.Arr), pv.I, vt)))
			return
		case PArrElem:
			if av, ok := st.cells[pv.Cell].(*ArrVal); ok && pv.Idx < len(av.Elems) {
				n := &ArrVal{Elems: append([]Val(nil), av.Elems...)}
				n.Elems[pv.Idx] = v
				st.cells[pv.Cell] = n
			}
			return
		case PBox:
			vt, ok := v.(Term)
			if !ok {
				vt = fc.fresh("hv", pv.HSort)
			}
			h := fc.heap(st, pv.Heap, pv.HSort)
			fc.setHeap(st, pv.Heap, tStore(h, pv.Obj, vt))
			return
		}
	case Term:
		if n, ok := isStructVal(pointee); ok && namedPath(pointee) != "time.Time" {
			if vt, ok := v.(Term); ok {
				fc.copyStruct(st, n, pv, vt, 0)
				return
			}
		}
		srt := sortOf(pointee)
		vt, ok := v.(Term)
		if !ok {
			fc.abstract(instr, fmt.Sprintf("store of %T through reference", v))
			return
		}
		h := fc.heap(st, boxHeapName(srt), srt)
		fc.setHeap(st, boxHeapName(srt), tStore(h, pv, vt))
		return
	}
	fc.abstract(instr, fmt.Sprintf("store through unsupported pointer %T", p))
}

func (fc *FnCtx) globalInit(st *State, g *ssa.Global) Val {
	elem := g.Type().(*types.Pointer).Elem()
	key := g.Pkg.Pkg.Path() + "." + g.Name()
	if c, ok := fc.eng.sentinelOf[key]; ok {
		fc.declareSentinels()
		return T(SErr, c)
	}
	name := "glob_" + sanitize(shortPkg(g.Pkg.Pkg.Path())+"_"+g.Name())
	if _, ok := elem.Underlying().(*types.Signature); ok {
		return &Poison{"func-typed global"}
	}
	v := fc.decls.constant(name, sortOf(elem))
	fc.define(rangeFact(v, elem))
	return v
}

// declareSentinels emits the error-model background facts once per function context.
func (fc *FnCtx) declareSentinels() {
	if fc.sentinelsDeclared {
		return
	}
	fc.sentinelsDeclared = true
	e := fc.eng
	for _, s := range e.sentinels {
		fc.decls.constant(s, SErr)
	}
	for _, es := range e.errStructs {
		n := sanitize(es)
		fc.decls.fun("as_"+n, []string{SErr}, SInt)
		fc.decls.fun("box_"+n, []string{SInt}, SErr)
		fc.define(T(SBool, fmt.Sprintf("(= (as_%s nilErr) 0)", n)))
		// (non-negativity of as_T is stated pointwise in typeFact: a quantified axiom here made z3 diverge)
	}
	var all []string
	all = append(all, "nilErr")
	all = append(all, e.sentinels...)
	fc.define(T(SBool, "(distinct "+strings.Join(all, " ")+")"))
	for _, s := range e.sentinels {
		for _, t := range e.sentinels {
			if s == t {
				fc.define(T(SBool, fmt.Sprintf("(errIs %s %s)", s, t)))
			} else {
				fc.define(T(SBool, fmt.Sprintf("(not (errIs %s %s))", s, t)))
			}
		}
		fc.define(T(SBool, fmt.Sprintf("(not (errIs nilErr %s))", s)))
		for _, es := range e.errStructs {
			fc.define(T(SBool, fmt.Sprintf("(= (as_%s %s) 0)", sanitize(es), s)))
		}
	}
}

// ---------------------------------------------------------------------------
// Merging

func sameVal(a, b Val) bool {
	switch x := a.(type) {
	case Term:
		y, ok := b.(Term)
		return ok && x.S == y.S
	case *PtrVal:
		y, ok := b.(*PtrVal)
		if !ok || x.Kind != y.Kind {
			return false
		}
		switch x.Kind {
		case PCell:
			return x.Cell == y.Cell
		case PArrElem:
			return x.Cell == y.Cell && x.Idx == y.Idx
		case PField, PBox:
			return x.Heap == y.Heap && x.Obj.S == y.Obj.S
		case PElem:
			return x.Heap == y.Heap && x.Arr.S == y.Arr.S && x.I.S == y.I.S
		case PSnap:
			return x.IsNil.S == y.IsNil.S && sameVal(x.V, y.V)
		}
	case *ClosureVal:
		y, ok := b.(*ClosureVal)
		if !ok || x.Fn != y.Fn || len(x.Bindings) != len(y.Bindings) {
			return false
		}
		for i := range x.Bindings {
			if !sameVal(x.Bindings[i], y.Bindings[i]) {
				return false
			}
		}
		return true
	case *TupleVal:
		y, ok := b.(*TupleVal)
		if !ok || len(x.Elems) != len(y.Elems) {
			return false
		}
		for i := range x.Elems {
			if !sameVal(x.Elems[i], y.Elems[i]) {
				return false
			}
		}
		return true
	case *AnyVal:
		y, ok := b.(*AnyVal)
		return ok && sameVal(x.V, y.V)
	case *ArrVal:
		y, ok := b.(*ArrVal)
		if !ok || len(x.Elems) != len(y.Elems) {
			return false
		}
		for i := range x.Elems {
			if !sameVal(x.Elems[i], y.Elems[i]) {
				return false
			}
		}
		return true
	case nil:
		return b == nil
	}
	return false
}

// mergeVals merges values guarded by conditions (the last one is the default).
func (fc *FnCtx) mergeVals(prefix string, guards []Term, vals []Val) Val {
	allSame := true
	for i := 1; i < len(vals); i++ {
		if !sameVal(vals[0], vals[i]) {
			allSame = false
			break
		}
	}
	if allSame {
		return vals[0]
	}
	switch v0 := vals[0].(type) {
	case Term:
		acc, ok := vals[len(vals)-1].(Term)
		if !ok || acc.Sort != v0.Sort {
			return &Poison{"merge of mixed values"}
		}
		for i := len(vals) - 2; i >= 0; i-- {
			t, ok := vals[i].(Term)
			if !ok || t.Sort != acc.Sort {
				return &Poison{"merge of mixed values"}
			}
			acc = tIte(guards[i], t, acc)
		}
		return fc.nameTerm(prefix, acc)
	case *TupleVal:
		out := &TupleVal{}
		for j := range v0.Elems {
			var vs []Val
			for _, v := range vals {
				tv, ok := v.(*TupleVal)
				if !ok || len(tv.Elems) != len(v0.Elems) {
					return &Poison{"merge of mixed tuples"}
				}
				vs = append(vs, tv.Elems[j])
			}
			out.Elems = append(out.Elems, fc.mergeVals(prefix, guards, vs))
		}
		return out
	case *PtrVal:
		if v0.Kind == PSnap {
			var nils, vs []Val
			for _, v := range vals {
				pv, ok := v.(*PtrVal)
				if !ok || pv.Kind != PSnap {
					return &Poison{"merge of mixed pointers"}
				}
				nils = append(nils, pv.IsNil)
				vs = append(vs, pv.V)
			}
			n := fc.mergeVals(prefix, guards, nils)
			nt, ok := n.(Term)
			if !ok {
				return &Poison{"merge of snapshot pointers"}
			}
			return &PtrVal{Kind: PSnap, IsNil: nt, V: fc.mergeVals(prefix, guards, vs), Typ: v0.Typ}
		}
	case *ArrVal:
		out := &ArrVal{}
		for j := range v0.Elems {
			var vs []Val
			for _, v := range vals {
				av, ok := v.(*ArrVal)
				if !ok || len(av.Elems) != len(v0.Elems) {
					return &Poison{"merge of mixed arrays"}
				}
				vs = append(vs, av.Elems[j])
			}
			out.Elems = append(out.Elems, fc.mergeVals(prefix, guards, vs))
		}
		return out
	case *AnyVal:
		var vs []Val
		for _, v := range vals {
			av, ok := v.(*AnyVal)
			if !ok {
				return &Poison{"merge of mixed any"}
			}
			vs = append(vs, av.V)
		}
		return &AnyVal{V: fc.mergeVals(prefix, guards, vs), GT: v0.GT}
	}
	return &Poison{"unmergeable values"}
}

// lazyCellInit gives the initial value of a frame-independent cell that a state has not touched yet.
func (fc *FnCtx) lazyCellInit(st *State, k cellKey) (Val, bool) {
	if k.frame != 0 || k == keyAlloc || k == keyNow || k == keyPanicking {
		return nil, false
	}
	switch v := k.v.(type) {
	case string:
		if strings.HasPrefix(v, "sent:") || strings.HasPrefix(v, "closed:") || strings.HasPrefix(v, "recvd:") {
			return intLit(0), true
		}
		if strings.HasPrefix(v, "ctxdone:") || strings.HasPrefix(v, "called:") || strings.HasPrefix(v, "sawempty:") {
			return tFalse, true
		}
		if g, ok := fc.eng.ghosts[v]; ok {
			return fc.decls.constant("ghost_"+sanitize(v)+"_0", specSort(g.Type)), true
		}
	case *ssa.Global:
		return fc.globalInit(st, v), true
	}
	return nil, false
}

type inEdge struct {
	st   *State
	cond Term
}

func (fc *FnCtx) mergeStates(label string, ins []inEdge) *State {
	if len(ins) == 1 {
		s := ins[0].st.clone()
		s.pc = fc.nameTerm("pc_"+label, tAnd(s.pc, ins[0].cond))
		return s
	}
	guards := make([]Term, len(ins))
	for i, in := range ins {
		guards[i] = fc.nameTerm("g_"+label, tAnd(in.st.pc, in.cond))
	}
	out := &State{cells: map[cellKey]Val{}, heaps: map[string]Term{}}
	out.pc = fc.nameTerm("pc_"+label, tOr(guards...))
	var whys []string
	for _, in := range ins {
		if in.st.why != "" && (len(whys) == 0 || whys[len(whys)-1] != in.st.why) {
			whys = append(whys, in.st.why)
		}
	}
	out.why = strings.Join(whys, "; ")
	// cells
	keys := map[cellKey]bool{}
	for _, in := range ins {
		for k := range in.st.cells {
			keys[k] = true
		}
	}
	for k := range keys {
		var gs []Term
		var vs []Val
		for i, in := range ins {
			if v, ok := in.st.cells[k]; ok {
				gs = append(gs, guards[i])
				vs = append(vs, v)
			} else if _, isDefer := k.v.(*ssa.Defer); isDefer {
				// a path that did not execute the defer statement has nothing registered
				gs = append(gs, guards[i])
				vs = append(vs, tFalse)
			} else if iv, ok := fc.lazyCellInit(in.st, k); ok {
				// lazily created global-scope cells (ghost variables, counters, package variables):
				// a state that never touched them still holds the initial value
				gs = append(gs, guards[i])
				vs = append(vs, iv)
			} else if k == keyAlloc || k == keyNow || k == keyPanicking {
				// lazily created special cells: materialise initial value
				var v Val
				switch k {
				case keyAlloc:
					v = fc.allocTop(in.st)
				case keyNow:
					v = fc.nowTerm(in.st)
				default:
					v = tFalse
				}
				gs = append(gs, guards[i])
				vs = append(vs, v)
			}
		}
		out.cells[k] = fc.mergeVals("m", gs, vs)
	}
	hkeys := map[string]bool{}
	pend := map[string]bool{}
	for _, in := range ins {
		for k := range in.st.heaps {
			if strings.HasSuffix(k, "$pending") {
				pend[strings.TrimSuffix(k, "$pending")] = true
			} else {
				hkeys[k] = true
			}
		}
	}
	for k := range pend {
		if !hkeys[k] {
			out.heaps[k+"$pending"] = Term{}
		}
	}
	for k := range hkeys {
		var gs []Term
		var vs []Val
		var sortS string
		for _, in := range ins {
			if v, ok := in.st.heaps[k]; ok {
				sortS = v.Sort
			}
		}
		for i, in := range ins {
			v, ok := in.st.heaps[k]
			if !ok {
				if _, p := in.st.heaps[k+"$pending"]; p {
					v = fc.fresh("hv_"+k, sortS)
				} else {
					v = fc.decls.constant(k+"_0", sortS)
				}
			}
			gs = append(gs, guards[i])
			vs = append(vs, v)
		}
		out.heaps[k] = fc.mergeVals("mh", gs, vs).(Term)
	}
	return out
}

// ---------------------------------------------------------------------------
// Body execution

type loopInfo struct {
	header *ssa.BasicBlock
	ord    int
	body   map[*ssa.BasicBlock]bool
	// snapshot taken at the header after assuming the invariant
	variant []Term
	hstate  *State
}

func (fc *FnCtx) newFrame(fn *ssa.Function, spec *FuncSpec, depth int) *Frame {
	fc.nframes++
	return &Frame{id: fc.nframes, fn: fn, spec: spec, env: map[ssa.Value]Val{}, invokeN: map[string]int{}, depth: depth,
		ghostRes: map[string]Term{}, ghostIdx: map[string]int{}, loopOrd: map[*ssa.BasicBlock]int{}}
}

func rpo(fn *ssa.Function, isBack func(from, to *ssa.BasicBlock) bool) []*ssa.BasicBlock {
	seen := map[*ssa.BasicBlock]bool{}
	var post []*ssa.BasicBlock
	var dfs func(b *ssa.BasicBlock)
	dfs = func(b *ssa.BasicBlock) {
		seen[b] = true
		// visit successors in reverse so that RPO follows source order where possible
		for i := len(b.Succs) - 1; i >= 0; i-- {
			s := b.Succs[i]
			if isBack(b, s) || seen[s] {
				continue
			}
			dfs(s)
		}
		post = append(post, b)
	}
	dfs(fn.Blocks[0])
	for i, j := 0, len(post)-1; i < j; i, j = i+1, j-1 {
		post[i], post[j] = post[j], post[i]
	}
	return post
}

// execBody symbolically executes fr.fn from state in. Returns the merged exit state and results
// (nil state if no normal return is reachable).
func (fc *FnCtx) execBody(fr *Frame, in *State) (*State, []Val) {
	fn := fr.fn
	if len(fn.Blocks) == 0 {
		return in, nil
	}
	isBack := func(from, to *ssa.BasicBlock) bool { return to.Dominates(from) }
	// loops
	loops := map[*ssa.BasicBlock]*loopInfo{}
	var headers []*ssa.BasicBlock
	for _, b := range fn.Blocks {
		for _, s := range b.Succs {
			if isBack(b, s) {
				li := loops[s]
				if li == nil {
					li = &loopInfo{header: s, body: map[*ssa.BasicBlock]bool{s: true}}
					loops[s] = li
					headers = append(headers, s)
				}
				// natural loop: blocks reaching b without passing s
				var stack []*ssa.BasicBlock
				if !li.body[b] {
					li.body[b] = true
					stack = append(stack, b)
				}
				for len(stack) > 0 {
					x := stack[len(stack)-1]
					stack = stack[:len(stack)-1]
					for _, p := range x.Preds {
						if !li.body[p] {
							li.body[p] = true
							stack = append(stack, p)
						}
					}
				}
			}
		}
	}
	sort.Slice(headers, func(i, j int) bool { return headers[i].Index < headers[j].Index })
	for i, h := range headers {
		loops[h].ord = i
		fr.loopOrd[h] = i
	}
	if fr.spec != nil {
		for ord := range fr.spec.Loops {
			if ord >= len(headers) {
				// a loop contract that binds to nothing would silently verify nothing
				panic(bindError{fmt.Sprintf("%s:%d: contract of %s names loop %d but the function has %d loop(s)", fr.spec.File, fr.spec.Line, fr.spec.Target, ord, len(headers))})
			}
		}
	}
	order := rpo(fn, isBack)
	outStates := map[*ssa.BasicBlock]*State{}
	edgeConds := map[[2]*ssa.BasicBlock]Term{} // not keyed by succ index: If with both succs same is rare
	fr.entry = in
	for _, b := range order {
		var st *State
		if b == fn.Blocks[0] {
			st = in.clone()
		} else {
			var ins []inEdge
			for _, p := range b.Preds {
				if isBack(p, b) {
					continue
				}
				ps := outStates[p]
				if ps == nil {
					continue
				}
				c, ok := edgeConds[[2]*ssa.BasicBlock{p, b}]
				if !ok {
					c = tTrue
				}
				ins = append(ins, inEdge{ps, c})
			}
			if len(ins) == 0 {
				continue
			}
			st = fc.mergeStates(fmt.Sprintf("f%db%d", fr.id, b.Index), ins)
			// phis
			for _, instr := range b.Instrs {
				phi, ok := instr.(*ssa.Phi)
				if !ok {
					break
				}
				var gs []Term
				var vs []Val
				for i, p := range b.Preds {
					if isBack(p, b) || outStates[p] == nil {
						continue
					}
					c := edgeConds[[2]*ssa.BasicBlock{p, b}]
					if c.S == "" {
						c = tTrue
					}
					gs = append(gs, tAnd(outStates[p].pc, c))
					vs = append(vs, fc.value(fr, outStates[p], phi.Edges[i]))
				}
				if len(vs) > 0 {
					fr.env[phi] = fc.mergeVals("phi", gs, vs)
				}
			}
		}
		if li := loops[b]; li != nil {
			fc.enterLoop(fr, st, li)
		}
		// instructions
		terminated := false
		for _, instr := range b.Instrs {
			if _, ok := instr.(*ssa.Phi); ok {
				continue
			}
			if fc.execInstr(fr, st, instr, edgeConds) {
				terminated = true
				break
			}
		}
		if terminated {
			continue
		}
		outStates[b] = st
		// back edges: assert invariant
		for _, s := range b.Succs {
			if isBack(b, s) {
				c, ok := edgeConds[[2]*ssa.BasicBlock{b, s}]
				if !ok {
					c = tTrue
				}
				bs := st.clone()
				bs.pc = tAnd(st.pc, c)
				fc.backEdge(fr, bs, loops[s], b)
			}
		}
	}
	// panics -> recover
	fc.handlePanics(fr)
	if len(fr.rets) == 0 {
		return nil, nil
	}
	var ins []inEdge
	for _, r := range fr.rets {
		ins = append(ins, inEdge{r.st, tTrue})
	}
	out := fc.mergeStates(fmt.Sprintf("f%dexit", fr.id), ins)
	nres := len(fr.rets[0].vals)
	res := make([]Val, nres)
	for j := 0; j < nres; j++ {
		var gs []Term
		var vs []Val
		for _, r := range fr.rets {
			gs = append(gs, r.st.pc)
			vs = append(vs, r.vals[j])
		}
		res[j] = fc.mergeVals("ret", gs, vs)
	}
	return out, res
}

func (fc *FnCtx) handlePanics(fr *Frame) {
	if len(fr.panics) == 0 {
		return
	}
	if fr.fn.Recover == nil || len(fr.defers) == 0 {
		return // escapes to the caller
	}
	var ins []inEdge
	for _, p := range fr.panics {
		ins = append(ins, inEdge{p, tTrue})
	}
	fr.panics = nil
	st := fc.mergeStates(fmt.Sprintf("f%dpanic", fr.id), ins)
	st.cells[keyPanicking] = tTrue
	fc.runDefers(fr, st, nil)
	still, _ := st.cells[keyPanicking].(Term)
	if still.S == "" {
		still = tFalse
	}
	// escaped part
	if still.S != "false" {
		es := st.clone()
		es.pc = tAnd(st.pc, still)
		fr.panics = append(fr.panics, es)
	}
	if still.S != "true" {
		rs := st
		rs.pc = fc.nameTerm("pc_recovered", tAnd(st.pc, tNot(still)))
		rs.cells[keyPanicking] = tFalse
		edgeConds := map[[2]*ssa.BasicBlock]Term{}
		for _, instr := range fr.fn.Recover.Instrs {
			if fc.execInstr(fr, rs, instr, edgeConds) {
				break
			}
		}
	}
}

// enterLoop applies the cut-point rule at a loop header.
func (fc *FnCtx) enterLoop(fr *Frame, st *State, li *loopInfo) {
	var ls *LoopSpec
	if fr.spec != nil {
		ls = fr.spec.Loops[li.ord]
	}
	if ls == nil {
		ls = &LoopSpec{}
		if fr.top {
			fc.abstract(li.header.Instrs[0], fmt.Sprintf("loop %d has no invariant: treated as invariant true", li.ord))
		}
	}
	// assert invariant on entry
	for i, inv := range ls.Invariants {
		t := fc.evalClause(fr, st, fr.entry, inv, specEnvLoop)
		fc.obligeClause(st, "inv", fmt.Sprintf("loop%d:entry:%s", li.ord, clauseLabel(inv, i)), t, inv, li.header.Instrs[0].Pos())
	}
	// havoc modified state
	fc.havocLoop(fr, st, li)
	for _, inv := range ls.Invariants {
		t := fc.evalClause(fr, st, fr.entry, inv, specEnvLoop)
		fc.assume(st, t)
	}
	li.variant = nil
	for _, d := range ls.Decreases {
		li.variant = append(li.variant, fc.evalClauseTerm(fr, st, fr.entry, d))
	}
	li.hstate = st.clone()
}

func clauseLabel(c Clause, i int) string {
	if c.Name != "" {
		return c.Name
	}
	return fmt.Sprintf("%d", i)
}

func (fc *FnCtx) obligeClause(st *State, kind, detail string, goal Term, c Clause, pos token.Pos) {
	props := c.Tags
	if len(props) == 0 && fc.spec != nil {
		props = fc.spec.Props
	}
	ob := fc.oblige(st, kind, detail, goal, pos, props, c.Src)
	if c.File != "" {
		ob.Note = fmt.Sprintf("%s:%d", c.File, c.Line)
	}
}

func (fc *FnCtx) backEdge(fr *Frame, st *State, li *loopInfo, from *ssa.BasicBlock) {
	var ls *LoopSpec
	if fr.spec != nil {
		ls = fr.spec.Loops[li.ord]
	}
	if ls == nil {
		return
	}
	pos := li.header.Instrs[0].Pos()
	for i, inv := range ls.Invariants {
		t := fc.evalClause(fr, st, fr.entry, inv, specEnvLoop)
		fc.obligeClause(st, "inv", fmt.Sprintf("loop%d:preserved:%s", li.ord, clauseLabel(inv, i)), t, inv, pos)
	}
	if len(ls.Decreases) > 0 {
		var now []Term
		for _, d := range ls.Decreases {
			now = append(now, fc.evalClauseTerm(fr, st, fr.entry, d))
		}
		// lexicographic decrease, bounded below by 0
		var alts []Term
		eqPrefix := tTrue
		for i := range now {
			alts = append(alts, tAnd(eqPrefix, tLt(now[i], li.variant[i]), tGe(li.variant[i], intLit(0))))
			eqPrefix = tAnd(eqPrefix, tEq(now[i], li.variant[i]))
		}
		fc.obligeClause(st, "decreases", fmt.Sprintf("loop%d", li.ord), tOr(alts...), ls.Decreases[0], pos)
	}
}

// havocLoop forgets everything the loop body may modify.
func (fc *FnCtx) havocLoop(fr *Frame, st *State, li *loopInfo) {
	modCells := map[cellKey]types.Type{}
	modHeaps := writeSetT{}
	special := map[cellKey]bool{}
	definedInLoop := map[ssa.Value]bool{}
	for b := range li.body {
		for _, instr := range b.Instrs {
			if a, ok := instr.(*ssa.Alloc); ok {
				definedInLoop[a] = true
			}
		}
	}
	var scanFn func(fn *ssa.Function, fid int, depth int)
	noteAddr := func(fid int, addr ssa.Value) {
		switch a := addr.(type) {
		case *ssa.Alloc:
			if !definedInLoop[a] {
				modCells[cellKey{fid, a}] = a.Type().(*types.Pointer).Elem()
			}
		case *ssa.IndexAddr:
			if al, ok := a.X.(*ssa.Alloc); ok && !definedInLoop[al] {
				modCells[cellKey{fid, al}] = al.Type().(*types.Pointer).Elem()
			}
		case *ssa.FreeVar:
			// closure writing a captured variable: resolve binding
			if pv, ok := fr.env[a].(*PtrVal); ok && pv.Kind == PCell {
				if al, ok := pv.Cell.v.(*ssa.Alloc); ok {
					modCells[pv.Cell] = al.Type().(*types.Pointer).Elem()
				}
			}
		case *ssa.Global:
			modCells[cellKey{0, a}] = a.Type().(*types.Pointer).Elem()
		}
	}
	scanInstr := func(fid int, instr ssa.Instruction) {
		switch x := instr.(type) {
		case *ssa.Store:
			noteAddr(fid, x.Addr)
		case *ssa.Alloc, *ssa.MakeSlice, *ssa.MakeMap, *ssa.MakeChan, *ssa.MakeClosure, *ssa.MakeInterface:
			special[keyAlloc] = true
		case *ssa.Next:
			if rg, ok := x.Iter.(*ssa.Range); ok {
				if _, isMap := unalias(rg.X.Type()).Underlying().(*types.Map); isMap {
					special[cellKey{fid, "visited:" + rg.Name()}] = true
				}
			}
		case *ssa.Send:
			if ci := fc.chanInvFor(x.Chan); ci != nil {
				special[cellKey{0, "sent:" + ci.Key}] = true
			}
		case *ssa.UnOp:
			if x.Op == token.ARROW {
				if k := fc.recvKey(x.X); k != "" {
					special[cellKey{0, "recvd:" + k}] = true
					special[cellKey{0, "sawempty:" + k}] = true
				}
			}
		case *ssa.Select:
			for _, s := range x.States {
				if s.Dir == types.SendOnly {
					if ci := fc.chanInvFor(s.Chan); ci != nil {
						special[cellKey{0, "sent:" + ci.Key}] = true
					}
				} else {
					// the receive counter of a channel read inside the loop becomes unknown (and only grows)
					if k := fc.recvKey(s.Chan); k != "" {
						special[cellKey{0, "recvd:" + k}] = true
						special[cellKey{0, "sawempty:" + k}] = true
					}
				}
			}
		}
		// a store is "fresh" for the loop only if the object it writes was allocated inside the loop body
		storeOutside := false
		if sx, ok := instr.(*ssa.Store); ok {
			if fa, ok := sx.Addr.(*ssa.FieldAddr); ok {
				if bases, ok := allocBases(fa.X, 0); ok {
					for _, b := range bases {
						if !li.body[b.Block()] {
							storeOutside = true
						}
					}
				}
			}
		}
		if ci, ok := instr.(ssa.CallInstruction); ok {
			for _, a := range ci.Common().Args {
				v := a
				if mi, isMI := a.(*ssa.MakeInterface); isMI {
					v = mi.X
				}
				if bases, ok := allocBases(v, 0); ok {
					for _, b := range bases {
						if !li.body[b.Block()] {
							storeOutside = true // callee may fill an object allocated before the loop
						}
					}
				}
			}
		}
		for h, kind := range instrWrites(fc.eng, instr) {
			if storeOutside {
				kind = wFull
			}
			if strings.HasPrefix(h, "$") {
				special[cellKey{0, h}] = true
				if h == "$allocTop" {
					special[keyAlloc] = true
				}
			} else if strings.HasPrefix(h, "ghost:") {
				special[cellKey{0, strings.TrimPrefix(h, "ghost:")}] = true
			} else {
				modHeaps.add(h, kind)
			}
		}
		// address-taken locals passed to calls
		if c, ok := instr.(ssa.CallInstruction); ok {
			for _, a := range c.Common().Args {
				noteAddr(fid, a)
			}
			// closures called in the loop may write captured cells
			if mc, ok := c.Common().Value.(*ssa.MakeClosure); ok {
				for i, b := range mc.Bindings {
					if closureWritesFreeVar(mc.Fn.(*ssa.Function), i, 0) {
						noteAddr(fid, b)
					}
				}
			}
		}
		if mc, ok := instr.(*ssa.MakeClosure); ok {
			_ = mc
		}
	}
	_ = scanFn
	for b := range li.body {
		for _, instr := range b.Instrs {
			scanInstr(fr.id, instr)
		}
	}
	// deterministic order
	var cks []cellKey
	for k := range modCells {
		cks = append(cks, k)
	}
	sort.Slice(cks, func(i, j int) bool { return fmt.Sprint(cks[i]) < fmt.Sprint(cks[j]) })
	for _, k := range cks {
		t := modCells[k]
		name := "lh"
		if a, ok := k.v.(*ssa.Alloc); ok && a.Comment != "" {
			name = "lh_" + a.Comment
		}
		if _, exists := st.cells[k]; !exists {
			if _, isG := k.v.(*ssa.Global); !isG {
				continue
			}
		}
		if old, ok := st.cells[k]; ok {
			switch old.(type) {
			case Term:
			case *PtrVal:
				if old.(*PtrVal).Kind == PSnap {
					pv := old.(*PtrVal)
					nv := fc.havocValue(st, name, pv.Typ)
					st.cells[k] = &PtrVal{Kind: PSnap, IsNil: fc.fresh(name+"_nil", SBool), V: nv, Typ: pv.Typ}
					continue
				}
				st.cells[k] = &Poison{"pointer cell modified in loop"}
				continue
			default:
				if _, isTuple := t.(*types.Tuple); !isTuple {
					if _, isArr := old.(*ArrVal); isArr {
						continue
					}
					st.cells[k] = &Poison{"non-term cell modified in loop"}
					continue
				}
			}
		}
		st.cells[k] = fc.havocValue(st, name, t)
		if a, ok := k.v.(*ssa.Alloc); ok && a.Comment == "rangeindex" {
			// the hidden index of a range loop starts at -1 and is only ever incremented
			if vt, ok := st.cells[k].(Term); ok {
				// and never exceeds the length of the collection (< 2^47)
				fc.assume(st, tAnd(tLe(intLit(-1), vt), tLe(vt, bigLit(maxLenS))))
			}
		}
	}
	var hs []string
	for h := range modHeaps {
		hs = append(hs, h)
	}
	sort.Strings(hs)
	if len(hs) > 0 {
		special[keyAlloc] = true
	}
	// allocation pointer first: typing facts of havoc'd values refer to it
	baseTop := fc.allocTop(st)
	if special[keyAlloc] {
		n := fc.fresh("allocTop", SInt)
		fc.assume(st, tGe(n, baseTop))
		st.cells[keyAlloc] = n
	}
	for _, h := range hs {
		cur, ok := st.heaps[h]
		if modHeaps[h] == wFresh {
			// only freshly allocated objects are written inside the loop: older references keep their
			// contents, and the heap term is unconstrained above the allocation pointer, so it already
			// stands for any contents later iterations put into their own objects (see havocForContract)
			continue
		}
		if !ok {
			st.heaps[h+"$pending"] = Term{}
			continue
		}
		st.heaps[h] = fc.fresh("lh_"+h, cur.Sort)
	}
	if special[keyNow] {
		fc.advanceClock(st)
	}
	for k := range special {
		if k == keyAlloc || k == keyNow {
			continue
		}
		if name, ok := k.v.(string); ok {
			if g, ok := fc.eng.ghosts[name]; ok {
				st.cells[k] = fc.fresh("gh_"+name, specSort(g.Type))
			}
			if strings.HasPrefix(name, "visited:") {
				if old, has := st.cells[k].(Term); has {
					st.cells[k] = fc.fresh("visited", old.Sort)
				}
			}
			if strings.HasPrefix(name, "sawempty:") {
				// what the loop last learnt about the channel is unknown at its head
				st.cells[k] = fc.fresh("sawempty", SBool)
			}
			if strings.HasPrefix(name, "recvd:") {
				old, has := st.cells[k].(Term)
				if !has {
					old = intLit(0)
				}
				n := fc.fresh("recvcnt", SInt)
				fc.assume(st, tGe(n, old))
				st.cells[k] = n
			}
			if strings.HasPrefix(name, "sent:") {
				// send counters only grow
				old, has := st.cells[k].(Term)
				if !has {
					old = intLit(0)
				}
				n := fc.fresh("sentcnt", SInt)
				fc.assume(st, tGe(n, old))
				st.cells[k] = n
			}
		}
	}
}

// closureWritesFreeVar: does the closure (or a closure it creates) store into its idx-th captured variable,
// or let its address escape to a call?
func closureWritesFreeVar(fn *ssa.Function, idx int, depth int) bool {
	if idx >= len(fn.FreeVars) || depth > 4 {
		return true
	}
	fv := fn.FreeVars[idx]
	if fv.Referrers() == nil {
		return false
	}
	for _, ref := range *fv.Referrers() {
		switch r := ref.(type) {
		case *ssa.Store:
			if r.Addr == fv {
				return true
			}
			return true // address stored somewhere
		case *ssa.UnOp, *ssa.DebugRef, *ssa.FieldAddr:
		case *ssa.MakeClosure:
			for j, b := range r.Bindings {
				if b == fv && closureWritesFreeVar(r.Fn.(*ssa.Function), j, depth+1) {
					return true
				}
			}
		default:
			return true
		}
	}
	return false
}

// value returns the symbolic value of an SSA value.
func (fc *FnCtx) value(fr *Frame, st *State, v ssa.Value) Val {
	switch x := v.(type) {
	case *ssa.Const:
		return fc.constVal(st, x)
	case *ssa.Global:
		return &PtrVal{Kind: PCell, Cell: cellKey{0, x}, Typ: x.Type().(*types.Pointer).Elem()}
	case *ssa.Function:
		return &ClosureVal{Fn: x}
	case *ssa.Builtin:
		return &Poison{"builtin value"}
	}
	if val, ok := fr.env[v]; ok {
		return val
	}
	if p, ok := v.(*ssa.Parameter); ok {
		val := fc.havocValue(st, "param_"+p.Name(), p.Type())
		fr.env[v] = val
		return val
	}
	if fv, ok := v.(*ssa.FreeVar); ok {
		// free variable of a closure verified on its own: a captured struct variable is an (unknown)
		// object reference, anything else a cell with unknown content
		elem := fv.Type().(*types.Pointer).Elem()
		if _, ok := isStructVal(elem); ok && namedPath(elem) != "time.Time" {
			r := fc.havocValue(st, "fv_"+fv.Name(), fv.Type())
			fr.env[v] = r
			return r
		}
		pv := &PtrVal{Kind: PCell, Cell: cellKey{fr.id, fv}, Typ: elem}
		fr.env[v] = pv
		return pv
	}
	return &Poison{fmt.Sprintf("undefined SSA value %s", v.Name())}
}

func (fc *FnCtx) constVal(st *State, c *ssa.Const) Val {
	t := unalias(c.Type())
	if c.Value == nil {
		// nil or zero value
		if _, ok := t.Underlying().(*types.Pointer); ok {
			if _, isS := isStructPtr(t); isS {
				return intLit(0)
			}
			return &PtrVal{Kind: PSnap, IsNil: tTrue, V: nil, Typ: t.Underlying().(*types.Pointer).Elem()}
		}
		if _, ok := t.Underlying().(*types.Signature); ok {
			return intLit(0)
		}
		return fc.zeroValue(st, t)
	}
	switch c.Value.Kind() {
	case constant.Bool:
		if constant.BoolVal(c.Value) {
			return tTrue
		}
		return tFalse
	case constant.Int:
		return bigLit(c.Value.ExactString())
	case constant.String:
		s := constant.StringVal(c.Value)
		if s == "" {
			return T(SStr, "emptyStr")
		}
		return fc.strLit(s)
	case constant.Float:
		return intLit(0)
	}
	return &Poison{"const"}
}

var strLits = map[string]string{}

func (fc *FnCtx) strLit(s string) Term {
	name, ok := strLits[s]
	if !ok {
		name = fmt.Sprintf("strlit_%d", len(strLits))
		strLits[s] = name
	}
	if _, declared := fc.decls.text[name]; !declared {
		fc.decls.constant(name, SStr)
		fc.define(T(SBool, fmt.Sprintf("(= (slen %s) %d)", name, len(s))))
		// distinctness against the other literals declared in this context
		for o, on := range strLits {
			if on != name {
				if _, d := fc.decls.text[on]; d && o != s {
					fc.define(T(SBool, fmt.Sprintf("(distinct %s %s)", name, on)))
				}
			}
		}
	}
	return T(SStr, name)
}

func (fc *FnCtx) termOf(fr *Frame, st *State, v ssa.Value) (Term, bool) {
	val := fc.value(fr, st, v)
	t, ok := val.(Term)
	return t, ok
}

// termOrHavoc returns the value as term or a fresh unconstrained one.
func (fc *FnCtx) termOrHavoc(fr *Frame, st *State, v ssa.Value, instr ssa.Instruction) Term {
	val := fc.value(fr, st, v)
	if t, ok := val.(Term); ok {
		return t
	}
	if pv, ok := val.(*PtrVal); ok && pv.Kind == PSnap {
		// pointer used as a plain value: only nil-ness is meaningful
		return tIte(pv.IsNil, intLit(0), intLit(1))
	}
	fc.abstract(instr, fmt.Sprintf("value %s of kind %T used as term", v.Name(), val))
	return fc.havocValue(st, "abs", v.Type()).(Term)
}
