package main

import (
	"fmt"
	"go/token"
	"go/types"
	"regexp"
	"sort"
	"strings"

	"golang.org/x/tools/go/ssa"
)

const maxInlineDepth = 4

// channel observations in contract text: sent("K"), recvd("K"), closed("K"), sawEmpty("K")
var chanObsRe = regexp.MustCompile(`\b(sent|recvd|closed|sawEmpty)\("([^"]+)"\)`)
var chanObsCell = map[string]string{"sent": "sent", "recvd": "recvd", "closed": "closed", "sawEmpty": "sawempty"}

// calleeName gives a stable name for model lookup: "pkgpath.Func" or "(pkgpath.T).Method" / "(*pkgpath.T).Method".
func calleeModelName(fn *ssa.Function) string {
	if o := fn.Origin(); o != nil {
		fn = o
	}
	if recv := fn.Signature.Recv(); recv != nil {
		t := recv.Type()
		ptr := ""
		if p, ok := t.(*types.Pointer); ok {
			t = p.Elem()
			ptr = "*"
		}
		if n, ok := unalias(t).(*types.Named); ok {
			pkg := ""
			if n.Obj().Pkg() != nil {
				pkg = n.Obj().Pkg().Path() + "."
			}
			return fmt.Sprintf("(%s%s%s).%s", ptr, pkg, n.Obj().Name(), fn.Name())
		}
		return "(?)." + fn.Name()
	}
	pkg := ""
	if fn.Pkg != nil {
		pkg = fn.Pkg.Pkg.Path()
	} else if fn.Object() != nil && fn.Object().Pkg() != nil {
		pkg = fn.Object().Pkg().Path()
	}
	name := fn.Name()
	if i := strings.Index(name, "["); i >= 0 {
		name = name[:i]
	}
	return pkg + "." + name
}

func (fc *FnCtx) execCall(fr *Frame, st *State, instr ssa.Instruction, c *ssa.CallCommon) Val {
	var args []Val
	for _, a := range c.Args {
		args = append(args, fc.value(fr, st, a))
	}
	var fnVal Val
	if !c.IsInvoke() {
		if _, isB := c.Value.(*ssa.Builtin); !isB {
			fnVal = fc.value(fr, st, c.Value)
		}
	} else {
		fnVal = fc.value(fr, st, c.Value)
	}
	return fc.doCall(fr, st, instr, c, fnVal, args)
}

// noteGhostHit records that a ghost binding ("result of call / invoke ...") met its call site.
func (fc *FnCtx) noteGhostHit(key string) {
	if fc.ghostHits == nil {
		fc.ghostHits = map[string]bool{}
	}
	fc.ghostHits[key] = true
}

func resultType(c *ssa.CallCommon) types.Type {
	sig := c.Signature()
	switch sig.Results().Len() {
	case 0:
		return nil
	case 1:
		return sig.Results().At(0).Type()
	}
	return sig.Results()
}

// doCall dispatches a call and binds ghost names declared for static callee results.
func (fc *FnCtx) doCall(fr *Frame, st *State, instr ssa.Instruction, c *ssa.CallCommon, fnVal Val, args []Val) Val {
	prePC := st.pc
	if fr.top && fr.spec != nil && len(fr.spec.Befores) > 0 {
		name := ""
		if c.IsInvoke() {
			name = c.Method.Name() // interface method call: named by the method
		} else if cv, ok := fnVal.(*ClosureVal); ok && cv.Fn != nil {
			name = cv.Fn.Name()
			if i := strings.Index(name, "["); i >= 0 {
				name = name[:i]
			}
		} else if bi, ok := c.Value.(*ssa.Builtin); ok {
			name = bi.Name() // close, delete, ...
		} else if u, ok := c.Value.(*ssa.UnOp); ok {
			// call through a function-typed local variable / struct field: named by the variable / field
			if al, ok := u.X.(*ssa.Alloc); ok {
				name = al.Comment
			}
			if fa, ok := u.X.(*ssa.FieldAddr); ok {
				if _, stt := structOf(fa.X.Type()); stt != nil {
					name = stt.Field(fa.Field).Name()
				}
			}
		}
		if name != "" {
			full := ""
			if cv, ok := fnVal.(*ClosureVal); ok && cv.Fn != nil && !c.IsInvoke() {
				full = funcDisplayName(cv.Fn) // e.g. sync.(*syncStore).Head
			}
			for i, b := range fr.spec.Befores {
				// the callee may be named plainly (Head) or with its receiver ((*syncStore).Head)
				if b.Callee != name && !(full != "" && strings.Contains(b.Callee, ")") && strings.HasSuffix(full, "."+b.Callee)) {
					continue
				}
				if fc.beforeHits == nil {
					fc.beforeHits = map[int]bool{}
				}
				fc.beforeHits[i] = true
				env := fc.topEnv(fr, fr.spec)
				// the call's actual arguments are visible as arg0, arg1, ...
				for ai, av := range args {
					if ai < len(c.Args) {
						env.bind(fmt.Sprintf("arg%d", ai), av, c.Args[ai].Type())
					}
				}
				t := fc.evalClauseEnv(st, fc.entry, b.Clause, env)
				pos := token.NoPos
				if instr != nil {
					pos = instr.Pos()
				}
				fc.obligeClause(st, "before", name+":"+clauseLabel(b.Clause, i), t, b.Clause, pos)
			}
		}
	}
	res := fc.doCallInner(fr, st, instr, c, fnVal, args)
	if fr.top && fr.spec != nil && len(fr.spec.Relies) > 0 && !c.IsInvoke() {
		if cv, ok := fnVal.(*ClosureVal); ok && cv.Fn != nil {
			name := cv.Fn.Name()
			if i := strings.Index(name, "["); i >= 0 {
				name = name[:i]
			}
			for _, r := range fr.spec.Relies {
				if r.Callee != name {
					continue
				}
				env := fc.topEnv(fr, fr.spec)
				t := fc.evalClauseEnv(st, fc.entry, r.Clause, env)
				fc.assume(st, t)
				fc.assumptions["RELY after "+name+" (interference of other goroutines restores the shared invariant): "+r.Clause.Src] = true
			}
		}
	}
	if len(fr.ghostRes) == 0 {
		return res
	}
	key0, keyQ := "", ""
	if c.IsInvoke() {
		// methods of the header type parameter have their own binding ("result of invoke M #n", see doInvoke);
		// calls through any other interface are bound like static calls, keyed "iface.<Method>" (their
		// ordinals are counted separately from static calls of the same name)
		if isTypeParam(unalias(c.Value.Type())) {
			return res
		}
		key0 = "call:iface." + c.Method.Name()
	} else if cv, ok := fnVal.(*ClosureVal); ok && cv.Fn != nil {
		name := cv.Fn.Name()
		if i := strings.Index(name, "["); i >= 0 {
			name = name[:i]
		}
		key0 = "call:" + name
		// a method may also be named with its receiver ("(*Store).Get"), which keeps it apart from
		// same-named methods of other types; qualified names have their own ordinals
		if full := funcDisplayName(cv.Fn); strings.Contains(full, ").") {
			// (*pkg/path.Store[...]).Get -> (*Store).Get
			tail := full[strings.LastIndex(full, "("):]
			inner := tail[1:strings.Index(tail, ")")]
			ptr := ""
			if strings.HasPrefix(inner, "*") {
				ptr, inner = "*", inner[1:]
			}
			if j := strings.LastIndex(inner, "."); j >= 0 {
				inner = inner[j+1:]
			}
			if k := strings.Index(inner, "["); k >= 0 {
				inner = inner[:k]
			}
			keyQ = "call:(" + ptr + inner + ")" + tail[strings.Index(tail, ")")+1:]
		}
	} else if _, isB := c.Value.(*ssa.Builtin); !isB {
		if fs := fc.fieldSpecFor(c.Value); fs != nil {
			key0 = "call:" + shortKey(fs.Target) // calls through a func-typed field: keyed by the field name
		} else if u, ok := c.Value.(*ssa.UnOp); ok {
			// call through a local / captured function variable without a contract: keyed by the variable
			switch x := u.X.(type) {
			case *ssa.Alloc:
				if x.Comment != "" {
					key0 = "call:" + x.Comment
				}
			case *ssa.FreeVar:
				key0 = "call:" + x.Name()
			}
		}
	}
	for _, key0 := range []string{key0, keyQ} {
		if key0 == "" {
			continue
		}
		ord := fr.invokeN[key0]
		fr.invokeN[key0]++
		for idx := 0; idx < 4; idx++ {
			key := fmt.Sprintf("%s#%d/%d", key0, ord, idx)
			g, ok := fr.ghostRes[key]
			if !ok {
				continue
			}
			fc.noteGhostHit(key)
			v := res
			if tv, isT := res.(*TupleVal); isT {
				if idx >= len(tv.Elems) {
					continue
				}
				v = tv.Elems[idx]
			} else if idx != 0 {
				continue
			}
			if vt, isTerm := v.(Term); isTerm && vt.Sort == g.Sort {
				fc.assume(st, tEq(g, vt))
			}
			// called(<ghost>): the path condition under which the bound call was reached and returned
			ck := cellKey{0, "called:" + key}
			prev, has := st.cells[ck].(Term)
			if !has {
				prev = tFalse
			}
			_ = prePC
			st.cells[ck] = fc.nameTerm("called", tOr(prev, tTrue))
		}
	}
	return res
}

// doCallInner dispatches a call with already evaluated arguments.
func (fc *FnCtx) doCallInner(fr *Frame, st *State, instr ssa.Instruction, c *ssa.CallCommon, fnVal Val, args []Val) Val {
	rt := resultType(c)
	havocRes := func(prefix string) Val {
		if rt == nil {
			return nil
		}
		return fc.havocValue(st, prefix, rt)
	}
	pos := token.NoPos
	if instr != nil {
		pos = instr.Pos()
	}
	if c.IsInvoke() {
		return fc.doInvoke(fr, st, instr, c, fnVal, args, rt)
	}
	if b, ok := c.Value.(*ssa.Builtin); ok {
		return fc.doBuiltin(fr, st, instr, c, b, args, rt)
	}
	var callee *ssa.Function
	var bindings []Val
	switch v := fnVal.(type) {
	case *ClosureVal:
		callee = v.Fn
		bindings = v.Bindings
	}
	if callee == nil {
		// call through an unknown function value: field contract?
		if fs := fc.fieldSpecFor(c.Value); fs != nil {
			res := fc.applyContract(fr, st, instr, fs, nil, c.Signature(), nil, args, rt, pos)
			if et, ok := res.(Term); ok && et.Sort == SErr && isUserCallback(c.Value) {
				fc.assumeForeignError(st, et)
			}
			return res
		}
		fc.havocCallees["<func value "+c.Value.Name()+" in "+fr.fn.Name()+">"] = true
		fc.havocPointees(fr, st, c, args)
		if isUserCallback(c.Value) && fc.topFrame != nil && fnRecovers(fc.topFrame.fn) {
			// code written to contain panics of a callback: the callback may indeed panic
			fc.forkPanic(fr, st, "the callback "+c.Value.Name()+" panics")
		}
		res := havocRes("fv")
		if et, ok := res.(Term); ok && et.Sort == SErr && isUserCallback(c.Value) {
			fc.assumeForeignError(st, et)
		}
		return res
	}
	mname := calleeModelName(callee)
	// recv for methods is args[0]
	if m, ok := models[mname]; ok {
		fc.usedModels[mname] = true
		return m(fc, fr, st, instr, c, args, rt)
	}
	ex := fc.eng.externs[mname+instSuffix(callee)]
	if ex == nil {
		ex = fc.eng.externs[mname]
	}
	if ex != nil {
		fc.assumedSpecs["extern "+mname+instSuffix(callee)] = true
		res := fc.applyContract(fr, st, instr, ex, callee, callee.Signature, bindings, args, rt, pos)
		// a dependency cannot return the repository's unexported sentinel errors
		switch rv := res.(type) {
		case Term:
			if rv.Sort == SErr {
				fc.assumeForeignError(st, rv)
			}
		case *TupleVal:
			for _, el := range rv.Elems {
				if et, ok := el.(Term); ok && et.Sort == SErr {
					fc.assumeForeignError(st, et)
				}
			}
		}
		return res
	}
	if isNoopCallee(callee) {
		return havocRes("noop")
	}
	dname := funcDisplayName(callee)
	spec := fc.eng.specs[dname]
	if spec != nil && !spec.Inline {
		if spec.Trusted {
			fc.assumedSpecs[dname] = true
		}
		return fc.applyContract(fr, st, instr, spec, callee, callee.Signature, bindings, args, rt, pos)
	}
	// inline: closures called directly, functions flagged inline, tiny getters
	if callee.Blocks != nil && fr.depth < maxInlineDepth && (callee.Parent() != nil || (spec != nil && spec.Inline) || isPbGetter(callee)) {
		return fc.inlineCall(fr, st, instr, callee, spec, bindings, args, rt)
	}
	fc.havocCallees[dname] = true
	// frame: havoc what the callee may write (syntactic write set)
	fc.havocSet(st, fc.eng.writeSet(callee))
	if callee.Blocks == nil {
		// external function without a body here: it may write through the pointers it receives
		fc.havocPointees(fr, st, c, args)
	}
	return havocRes("call_" + callee.Name())
}

// havocPointees: an unknown callee may write through every pointer it is handed: repo structs lose the
// contents of their fields, local cells their value.
func (fc *FnCtx) havocPointees(fr *Frame, st *State, c *ssa.CallCommon, args []Val) {
	ws := writeSetT{}
	for i, a := range c.Args {
		pt, ok := unalias(a.Type()).Underlying().(*types.Pointer)
		if !ok {
			// a struct pointer boxed into an interface (proto.Message etc.) is still a pointer
			if mi, isMI := a.(*ssa.MakeInterface); isMI {
				if n, isS := isStructPtr(mi.X.Type()); isS {
					structInitWrites(n, ws, 0, wFull)
					forceAll(n, ws, 0)
				}
			}
			continue
		}
		if n, ok := isStructVal(pt.Elem()); ok && namedPath(pt.Elem()) != "time.Time" {
			structInitWrites(n, ws, 0, wFull)
			continue
		}
		if i < len(args) {
			if pv, ok := args[i].(*PtrVal); ok && pv.Kind == PCell {
				st.cells[pv.Cell] = fc.havocValue(st, "escaped", pt.Elem())
			}
		}
	}
	if len(ws) > 0 {
		fc.havocSet(st, ws)
	}
}

// obsEq: two header values agree on every observer (the only way code can tell headers apart).
func obsEq(a, b Term) Term {
	return tAnd(
		tEq(app(SInt, "height", a), app(SInt, "height", b)),
		tEq(app(SInt, "htime", a), app(SInt, "htime", b)),
		tEq(app(SStr, "chainID", a), app(SStr, "chainID", b)),
		tEq(app(SBytes, "hash", a), app(SBytes, "hash", b)),
		tEq(app(SBytes, "lastHash", a), app(SBytes, "lastHash", b)),
		tEq(app(SBool, "isZero", a), app(SBool, "isZero", b)))
}

// instSuffix: "[Str,Hdr]" for a method of an instantiated generic type (sorts of the type arguments),
// so that external contracts can be given per instantiation (lru.TwoQueueCache[string,H] vs [uint64,Hash]).
func instSuffix(fn *ssa.Function) string {
	recv := fn.Signature.Recv()
	if recv == nil {
		return ""
	}
	t := recv.Type()
	if p, ok := t.(*types.Pointer); ok {
		t = p.Elem()
	}
	n, ok := unalias(t).(*types.Named)
	if !ok || n.TypeArgs() == nil || n.TypeArgs().Len() == 0 {
		return ""
	}
	var parts []string
	for i := 0; i < n.TypeArgs().Len(); i++ {
		parts = append(parts, sortOf(n.TypeArgs().At(i)))
	}
	return "[" + strings.Join(parts, ",") + "]"
}

// forceAll adds the fields of a struct to a write set regardless of the package filter used for
// allocation writes (decoders fill foreign structs too).
func forceAll(n *types.Named, ws writeSetT, depth int) {
	s, ok := n.Underlying().(*types.Struct)
	if !ok || depth > 2 {
		return
	}
	for i := 0; i < s.NumFields(); i++ {
		ws.add(structHeapName(n, s.Field(i).Name()), wFull)
	}
}

// isPbGetter: generated protobuf accessors (GetOrigin, GetHash, GetData, ...) are executed in place.
func isPbGetter(fn *ssa.Function) bool {
	if o := fn.Origin(); o != nil {
		fn = o
	}
	return fn.Pkg != nil && fn.Pkg.Pkg.Path() == repoModule+"/p2p/pb" && strings.HasPrefix(fn.Name(), "Get") && fn.Signature.Recv() != nil
}

func isNoopCallee(fn *ssa.Function) bool {
	if o := fn.Origin(); o != nil {
		fn = o
	}
	var pkg string
	if fn.Pkg != nil {
		pkg = fn.Pkg.Pkg.Path()
	} else if fn.Object() != nil && fn.Object().Pkg() != nil {
		pkg = fn.Object().Pkg().Path()
	}
	switch {
	case strings.HasPrefix(pkg, "github.com/ipfs/go-log"), strings.HasPrefix(pkg, "go.uber.org/zap"),
		strings.HasPrefix(pkg, "go.opentelemetry.io/"), strings.HasSuffix(pkg, "internal/otelattr"),
		pkg == "runtime/debug", pkg == "runtime":
		return true
	}
	if recv := fn.Signature.Recv(); recv != nil {
		tn := typeBaseName(recv.Type())
		if strings.HasSuffix(tn, "etrics") {
			return true
		}
	}
	return false
}

// fieldSpecFor finds a `field` contract for a func value loaded from a struct field or slice of them.
func (fc *FnCtx) fieldSpecFor(v ssa.Value) *FuncSpec {
	switch x := v.(type) {
	case *ssa.UnOp:
		if fa, ok := x.X.(*ssa.FieldAddr); ok {
			n, s := structOf(fa.X.Type())
			if s != nil {
				key := shortPkg(n.Obj().Pkg().Path()) + "." + n.Obj().Name() + "." + s.Field(fa.Field).Name()
				return fc.eng.fields[key]
			}
		}
		if ia, ok := x.X.(*ssa.IndexAddr); ok {
			return fc.fieldSpecFor(ia.X)
		}
		if al, ok := x.X.(*ssa.Alloc); ok {
			// local variable holding a func: look for a contract keyed by function + local name
			key := funcDisplayName(al.Parent()) + "." + al.Comment
			if fs, ok := fc.eng.fields[key]; ok {
				return fs
			}
			// range variable over a slice parameter: contract keyed by parameter name
		}
		if fv, ok := x.X.(*ssa.FreeVar); ok {
			// captured function variable (closures capture by reference): keyed by closure + variable name
			key := funcDisplayName(fv.Parent()) + "." + fv.Name()
			if fs, ok := fc.eng.fields[key]; ok {
				return fs
			}
		}
	case *ssa.Parameter:
		key := funcDisplayName(x.Parent()) + "." + x.Name()
		return fc.eng.fields[key]
	case *ssa.FreeVar:
		key := funcDisplayName(x.Parent()) + "." + x.Name()
		return fc.eng.fields[key]
	}
	return nil
}

// inlineCall executes the callee body in place.
func (fc *FnCtx) inlineCall(fr *Frame, st *State, instr ssa.Instruction, callee *ssa.Function, spec *FuncSpec, bindings []Val, args []Val, rt types.Type) Val {
	nf := fc.newFrame(callee, spec, fr.depth+1)
	for i, p := range callee.Params {
		if i < len(args) {
			nf.env[p] = args[i]
		}
	}
	for i, fv := range callee.FreeVars {
		if i < len(bindings) {
			nf.env[fv] = bindings[i]
		}
	}
	out, res := fc.execBody(nf, st)
	fr.panics = append(fr.panics, nf.panics...)
	if out == nil {
		// callee never returns normally
		st.pc = tFalse
		if rt == nil {
			return nil
		}
		return fc.havocValue(st, "noret", rt)
	}
	*st = *out
	switch len(res) {
	case 0:
		return nil
	case 1:
		return res[0]
	}
	return &TupleVal{Elems: res}
}

// havocWrites forgets heaps / ghosts named in ws.
func (fc *FnCtx) havocWrites(st *State, ws map[string]bool) {
	keys := make([]string, 0, len(ws))
	for k := range ws {
		keys = append(keys, k)
	}
	sort.Strings(keys)
	if len(keys) > 0 {
		old := fc.allocTop(st)
		n := fc.fresh("allocTop", SInt)
		fc.assume(st, tGe(n, old))
		st.cells[keyAlloc] = n
	}
	for _, k := range keys {
		switch {
		case k == "$now":
			fc.advanceClock(st)
		case k == "$allocTop":
		case strings.HasPrefix(k, "ghost:"):
			name := strings.TrimPrefix(k, "ghost:")
			if g, ok := fc.eng.ghosts[name]; ok {
				st.cells[cellKey{0, name}] = fc.fresh("gh_"+name, specSort(g.Type))
			}
		default:
			if cur, ok := st.heaps[k]; ok {
				st.heaps[k] = fc.fresh("hv_"+k, cur.Sort)
			} else {
				st.heaps[k+"$pending"] = Term{}
			}
			fc.written[k] = true
		}
	}
}

// ---------------------------------------------------------------------------
// Contracts at call sites

func (fc *FnCtx) applyContract(fr *Frame, st *State, instr ssa.Instruction, spec *FuncSpec, callee *ssa.Function,
	sig *types.Signature, bindings []Val, args []Val, rt types.Type, pos token.Pos) Val {
	env := fc.calleeEnv(spec, callee, sig, args)
	// a closure's contract refers to its captured variables by name: bind their current values
	if callee != nil {
		for i, fv := range callee.FreeVars {
			if i >= len(bindings) {
				break
			}
			elem := fv.Type().(*types.Pointer).Elem()
			if _, isS := isStructVal(elem); isS && namedPath(elem) != "time.Time" {
				env.bind(fv.Name(), bindings[i], elem)
			} else if _, isSig := unalias(elem).Underlying().(*types.Signature); !isSig {
				env.bind(fv.Name(), fc.load(st, bindings[i], elem, instr), elem)
			}
		}
	}
	// results of the callee's internal calls named by its contract: unknown values here
	for _, g := range spec.Ghosts {
		gs := SErr
		if g.Type != "" {
			gs = specSort(g.Type)
		}
		gv := fc.fresh("cg_"+g.Name, gs)
		fc.declareSentinels()
		fc.assume(st, fc.typeFact(st, gv, nil))
		env.bind(g.Name, gv, nil)
	}
	pre := st.clone()
	// requires
	for i, rq := range spec.Requires {
		t := fc.evalClauseEnv(st, pre, rq, env)
		short := spec.Target
		if k := strings.LastIndex(short, "."); k >= 0 {
			short = short[k+1:]
		}
		// a precondition tagged for one property must still be checked at call sites inside functions
		// that only serve other properties: it belongs to the callee's properties AND the caller's
		// A precondition tagged [P] is checked when property P is checked, which only happens if the CALLER
		// serves P. A call site in a function that does not serve P would silently escape: it is recorded
		// (govc -uncovered lists them; the contracts are kept free of such sites). The tag `local` marks
		// property-specific instrumentation that deliberately applies to P's own functions only.
		rq2 := rq
		if len(rq.Tags) > 0 && fc.spec != nil && !hasProp(rq.Tags, "local") {
			served := false
			for _, p := range fc.spec.Props {
				if hasProp(rq.Tags, p) {
					served = true
				}
			}
			if !served {
				fc.eng.uncovered[fmt.Sprintf("%s calls %s: precondition %v %s is not checked (caller serves %v)", fc.name, spec.Target, rq.Tags, clauseLabel(rq, i), fc.spec.Props)] = true
			}
		}
		fc.obligeClause(st, "call", fmt.Sprintf("%s:pre:%s", short, clauseLabel(rq, i)), t, rq2, pos)
	}
	// modifies
	ws := map[string]bool{}
	for _, m := range spec.Modifies {
		ws[fc.eng.resolveModifies(spec.Pkg, m)] = true
	}
	if callee != nil {
		// writes confined to fresh objects: havoc'd above allocTop only
		for h := range fc.eng.writeSet(callee) {
			if !ws[h] && !strings.HasPrefix(h, "$") && !strings.HasPrefix(h, "ghost:") {
				ws["fresh:"+h] = true
			}
		}
		if fc.eng.writeSet(callee)["$now"] > 0 {
			ws["$now"] = true
		}
	}
	fc.havocForContract(st, ws)
	// a pointer to one of the caller's local variables handed to the callee: the callee may assign through
	// it (e.g. (*Hash).UnmarshalJSON(&h)); what it leaves there is described by its postconditions (deref)
	for _, a := range args {
		if pv, ok := a.(*PtrVal); ok && pv.Kind == PCell && pv.Typ != nil {
			if _, isTerm := st.cells[pv.Cell].(Term); isTerm {
				st.cells[pv.Cell] = fc.havocValue(st, "outparam", pv.Typ)
			}
		}
	}
	// inside a function written to contain panics (deferred recover) every repo callee may panic
	if spec.MayPanic || (callee != nil && fc.topFrame != nil && fnRecovers(fc.topFrame.fn)) {
		ps := st.clone()
		pc := fc.fresh("panics", SBool)
		ps.pc = tAnd(st.pc, pc)
		ps.why = "callee " + spec.Target + " may panic (" + fc.posOf(pos) + ")"
		fr.panics = append(fr.panics, ps)
		st.pc = fc.nameTerm("pc_np", tAnd(st.pc, tNot(pc)))
	}
	var res Val
	if rt != nil {
		res = fc.havocValue(st, "res_"+sanitize(spec.Target), rt)
	}
	env.setResults(res)
	fc.applyEffects(st, pre, spec, env)
	// channel observations (sent / recvd / closed counters, sawEmpty) that the callee's postconditions speak
	// about are the callee's own sends and receives: for the caller they happen inside the call, so the
	// caller's counters move by whatever the postconditions say (monotonically) instead of standing still
	for _, en := range spec.Ensures {
		for _, m := range chanObsRe.FindAllStringSubmatch(en.Src, -1) {
			ck := cellKey{0, chanObsCell[m[1]] + ":" + m[2]}
			if m[1] == "sawEmpty" {
				st.cells[ck] = fc.fresh("sawempty", SBool)
				continue
			}
			old, ok := st.cells[ck].(Term)
			if !ok {
				old = intLit(0)
			}
			n := fc.fresh(m[1], SInt)
			fc.assume(st, tGe(n, old))
			st.cells[ck] = n
		}
	}
	for _, en := range spec.Ensures {
		if strings.Contains(en.Src, "cur(") {
			continue // speaks about the callee's locals at its exit: meaningless to a caller
		}
		t := fc.evalClauseEnv(st, pre, en, env)
		fc.assume(st, t)
	}
	for _, en := range spec.Assumes {
		t := fc.evalClauseEnv(st, pre, en, env)
		fc.assume(st, t)
		fc.assumptions["ASSUMED postcondition of "+spec.Target+" (not proved): "+en.Src] = true
	}
	for _, en := range spec.Defines {
		b := en.Expr.(*EBinary)
		pn := b.Y.(*ECall).Fun.(*EIdent).Name
		if _, ok := fc.eng.preds[pn]; !ok {
			panic(bindError{fmt.Sprintf("%s:%d: defines must conclude with a declared predicate, %s is not one", en.File, en.Line, pn)})
		}
		t := fc.evalClauseEnv(st, pre, en, env)
		fc.assume(st, t)
		fc.assumptions["history predicate "+pn+" is defined by the exit of "+spec.Target+": "+en.Src] = true
	}
	return res
}

// applyEffects executes the ghost assignments a contract attaches to the function's exit.
func (fc *FnCtx) applyEffects(st *State, pre *State, spec *FuncSpec, env *specEnv) {
	for _, ef := range spec.Effects {
		g, ok := fc.eng.ghosts[ef.Var]
		if !ok {
			panic(bindError{fmt.Sprintf("%s:%d: effect on undeclared ghost variable %s", ef.Clause.File, ef.Clause.Line, ef.Var)})
		}
		c := ef.Clause
		ev := &evaluator{fc: fc, st: st, old: pre, env: env, clause: &c}
		t, _ := ev.evalTerm(ef.Clause.Expr)
		if t.Sort != specSort(g.Type) {
			panic(bindError{fmt.Sprintf("%s:%d: effect value has sort %s, ghost %s has %s", ef.Clause.File, ef.Clause.Line, t.Sort, ef.Var, specSort(g.Type))})
		}
		st.cells[cellKey{0, ef.Var}] = fc.nameTerm("eff_"+ef.Var, t)
	}
}

// havocSet forgets everything in a write set, keeping old references for fresh-only writes.
func (fc *FnCtx) havocSet(st *State, w writeSetT) {
	ws := map[string]bool{}
	for h, k := range w {
		if k == wFresh && !strings.HasPrefix(h, "$") && !strings.HasPrefix(h, "ghost:") {
			ws["fresh:"+h] = true
		} else {
			ws[h] = true
		}
	}
	fc.havocForContract(st, ws)
}

func (fc *FnCtx) havocForContract(st *State, ws map[string]bool) {
	full := map[string]bool{}
	var fresh []string
	for k := range ws {
		if strings.HasPrefix(k, "fresh:") {
			fresh = append(fresh, strings.TrimPrefix(k, "fresh:"))
		} else {
			full[k] = true
		}
	}
	oldTop := fc.allocTop(st)
	fc.havocWrites(st, full)
	sort.Strings(fresh)
	if len(fresh) > 0 {
		if _, bumped := st.cells[keyAlloc]; !bumped || st.cells[keyAlloc].(Term).S == oldTop.S {
			n := fc.fresh("allocTop", SInt)
			fc.assume(st, tGe(n, oldTop))
			st.cells[keyAlloc] = n
		}
	}
	// Heaps written only at references the callee allocated itself are left untouched: the symbolic heap
	// is unconstrained above the allocation pointer (every fact mentions allocated references only, which
	// typeFact guarantees), so the current term already stands for "any contents the callee may have put
	// there". Bumping the allocation pointer is all that is needed; no quantified frame fact.
	_ = fresh
}

// ---------------------------------------------------------------------------
// invoke (interface / type-parameter method calls)

func (fc *FnCtx) doInvoke(fr *Frame, st *State, instr ssa.Instruction, c *ssa.CallCommon, recv Val, args []Val, rt types.Type) Val {
	method := c.Method.Name()
	rtype := unalias(c.Value.Type())
	havocRes := func(prefix string) Val {
		if rt == nil {
			return nil
		}
		return fc.havocValue(st, prefix, rt)
	}
	// header type parameter
	if isTypeParam(rtype) {
		h, ok := recv.(Term)
		if !ok {
			return havocRes("hm")
		}
		// zerosafe: a zero header of a pointer-typed implementation is the nil pointer, on which every
		// method other than IsZero dereferences nil. Where the verified function declares it, each such
		// call is an obligation that the receiver is known to be non-zero.
		if method != "IsZero" && method != "New" && fc.topFrame != nil && fc.topFrame.spec != nil && fc.topFrame.spec.ZeroSafe {
			fc.obligeSafe(st, "zerorecv", method, tNot(app(SBool, "isZero", h)), instr.Pos(), nil,
				"header."+method+"() is only invoked on a header known to be non-zero (a zero pointer-typed header is nil)")
		}
		switch method {
		case "Height":
			return app(SInt, "height", h)
		case "Time":
			return app(SInt, "htime", h)
		case "ChainID":
			return app(SStr, "chainID", h)
		case "Hash":
			return app(SBytes, "hash", h)
		case "LastHeader":
			return app(SBytes, "lastHash", h)
		case "IsZero":
			return app(SBool, "isZero", h)
		case "New":
			n := fc.fresh("newhdr", SHdr)
			fc.assume(st, tNot(app(SBool, "isZero", n)))
			fc.assumptions["A-new: header.New() returns a non-zero header whose observers are unconstrained until UnmarshalBinary"] = true
			return n
		case "Verify", "Validate", "UnmarshalBinary", "MarshalBinary":
			key := method
			ord := fr.invokeN[key]
			fr.invokeN[key]++
			if g, ok := fr.ghostRes[fmt.Sprintf("%s#%d", key, ord)]; ok {
				fc.noteGhostHit(fmt.Sprintf("%s#%d", key, ord))
				return g
			}
			if fr.spec != nil && (fr.spec.MayPanic || frameRecovers(fr)) || fc.headerMethodsMayPanic(fr) {
				fc.forkPanic(fr, st, "the header type's "+method+" panics")
			} else {
				fc.assumptions["A-total: the header type's "+method+" does not panic where no recover() is in scope (in "+fc.name+")"] = true
			}
			res := havocRes("hdr_" + method)
			// history predicates: validated(h) / decodedFrom(h, bytes) hold once the call returned nil
			if tv, ok := res.(*TupleVal); ok && method == "MarshalBinary" && len(tv.Elems) == 2 {
				if bt, ok := tv.Elems[0].(Term); ok && bt.Sort == SBytes {
					if et, ok := tv.Elems[1].(Term); ok && et.Sort == SErr {
						fc.decls.fun("decHdr", []string{SBytes}, SHdr)
						fc.assume(st, tImp(tEq(et, T(SErr, "nilErr")), obsEq(app(SHdr, "decHdr", bt), h)))
						fc.assumptions["A-codec: UnmarshalBinary(b) yields a header observationally equal to decHdr(b), and decHdr(MarshalBinary(h)) is observationally equal to h"] = true
					}
				}
			}
			if rt2, ok := res.(Term); ok && rt2.Sort == SErr {
				switch method {
				case "Validate":
					fc.decls.fun("sp_validated", []string{SHdr}, SBool)
					fc.assume(st, tImp(tEq(rt2, T(SErr, "nilErr")), app(SBool, "sp_validated", h)))
					fc.assumptions["history predicate validated(h): h.Validate() returned nil at some earlier point (defined at the call's exit, used positively only)"] = true
				case "UnmarshalBinary":
					if len(args) > 0 {
						if b, ok := args[0].(Term); ok && b.Sort == SBytes {
							fc.decls.fun("sp_decodedFrom", []string{SHdr, SBytes}, SBool)
							fc.assume(st, tImp(tEq(rt2, T(SErr, "nilErr")), app(SBool, "sp_decodedFrom", h, b)))
							// A-codec: decoding is a function of the bytes (decHdr), up to the observers
							fc.decls.fun("decHdr", []string{SBytes}, SHdr)
							fc.assume(st, tImp(tEq(rt2, T(SErr, "nilErr")), obsEq(h, app(SHdr, "decHdr", b))))
							fc.assumptions["A-codec: UnmarshalBinary(b) yields a header observationally equal to decHdr(b), and decHdr(MarshalBinary(h)) is observationally equal to h"] = true
							fc.assumptions["history predicate decodedFrom(h, b): h.UnmarshalBinary(b) returned nil (defined at the call's exit, used positively only)"] = true
						}
					}
				}
			}
			return res
		}
		return havocRes("hdr_" + method)
	}
	// error.Error()
	if isErrorType(rtype) && method == "Error" {
		return havocRes("errstr")
	}
	// interfaces with contracts
	if n, ok := rtype.(*types.Named); ok {
		key := n.Obj().Name() + "." + method
		if n.Obj().Pkg() != nil {
			key = shortPkg(n.Obj().Pkg().Path()) + "." + key
		}
		if m, ok := ifaceModels[key]; ok {
			fc.usedModels["iface "+key] = true
			return m(fc, fr, st, instr, c, append([]Val{recv}, args...), rt)
		}
		if spec := fc.eng.findIfaceSpec(n, method); spec != nil {
			fc.assumedSpecs["iface "+spec.Target] = true
			sig := c.Signature()
			return fc.applyContract(fr, st, instr, spec, nil, sig, nil, append([]Val{recv}, args...), rt, instr.Pos())
		}
		fc.havocCallees["iface "+key] = true
	} else {
		fc.havocCallees["iface ?."+method] = true
	}
	return havocRes("inv_" + method)
}

func frameRecovers(fr *Frame) bool { return fnRecovers(fr.fn) }

// headerMethodsMayPanic: decoding / validation / verification of the header type may panic only where
// the enclosing top-level function declares so (maypanic or has a recover).
func (fc *FnCtx) headerMethodsMayPanic(fr *Frame) bool {
	return fc.topFrame != nil && fnRecovers(fc.topFrame.fn)
}

// fnRecovers: the function defers a closure that calls recover(), i.e. it is written to contain panics.
func fnRecovers(fn *ssa.Function) bool {
	for _, b := range fn.Blocks {
		for _, instr := range b.Instrs {
			d, ok := instr.(*ssa.Defer)
			if !ok {
				continue
			}
			var callee *ssa.Function
			switch v := d.Common().Value.(type) {
			case *ssa.MakeClosure:
				callee = v.Fn.(*ssa.Function)
			case *ssa.Function:
				callee = v
			}
			if callee == nil {
				continue
			}
			for _, cb := range callee.Blocks {
				for _, ci := range cb.Instrs {
					if c, ok := ci.(*ssa.Call); ok {
						if bi, ok := c.Common().Value.(*ssa.Builtin); ok && bi.Name() == "recover" {
							return true
						}
					}
				}
			}
		}
	}
	return false
}

func (fc *FnCtx) forkPanic(fr *Frame, st *State, why string) {
	pc := fc.fresh("panics_"+why, SBool)
	ps := st.clone()
	ps.pc = tAnd(st.pc, pc)
	ps.why = why
	fr.panics = append(fr.panics, ps)
	st.pc = fc.nameTerm("pc_np", tAnd(st.pc, tNot(pc)))
}

// findIfaceSpec looks up "pkg.Iface.Method", following embedded interfaces.
func (e *Engine) findIfaceSpec(n *types.Named, method string) *FuncSpec {
	pkg := ""
	if n.Obj().Pkg() != nil {
		pkg = shortPkg(n.Obj().Pkg().Path())
	}
	if s, ok := e.ifaces[pkg+"."+n.Obj().Name()+"."+method]; ok {
		return s
	}
	it, ok := n.Underlying().(*types.Interface)
	if !ok {
		return nil
	}
	for i := 0; i < it.NumEmbeddeds(); i++ {
		if en, ok := unalias(it.EmbeddedType(i)).(*types.Named); ok {
			if s := e.findIfaceSpec(en, method); s != nil {
				return s
			}
		}
	}
	return nil
}

// ---------------------------------------------------------------------------
// builtins

func (fc *FnCtx) doBuiltin(fr *Frame, st *State, instr ssa.Instruction, c *ssa.CallCommon, b *ssa.Builtin, args []Val, rt types.Type) Val {
	switch b.Name() {
	case "len":
		switch v := args[0].(type) {
		case Term:
			switch v.Sort {
			case SSlice:
				return slLen(v)
			case SBytes:
				return app(SInt, "blen", v)
			case SStr:
				return app(SInt, "slen", v)
			case SInt:
				// map or chan
				if mt, ok := unalias(c.Args[0].Type()).Underlying().(*types.Map); ok {
					// len(map): a non-negative number that is zero exactly when the map has no entry
					// (cardinality beyond emptiness is not modelled)
					hasN, _, ks, _ := fc.mapHeaps(st, mt)
					l := fc.fresh("maplen", SInt)
					fc.assume(st, tAnd(tLe(intLit(0), l), tLe(l, bigLit(maxLenS))))
					q := fc.fresh("q_ml", ks)
					has := tSelect(tSelect(st.heaps[hasN], v), q)
					guard := rangeFact(q, mt.Key())
					fc.assume(st, T(SBool, fmt.Sprintf("(= (= %s 0) (forall ((%s %s)) (! (=> %s (not %s)) :pattern (%s))))", l.S, q.S, ks, guard.S, has.S, has.S)))
					fc.usedModels["len(map): zero iff the map has no entry (no cardinality)"] = true
					return l
				}
				l := fc.fresh("len", SInt)
				fc.assume(st, tAnd(tLe(intLit(0), l), tLe(l, bigLit(maxLenS))))
				return l
			}
		case *ArrVal:
			return intLit(int64(len(v.Elems)))
		}
		l := fc.fresh("len", SInt)
		fc.assume(st, tAnd(tLe(intLit(0), l), tLe(l, bigLit(maxLenS))))
		return l
	case "cap":
		if v, ok := args[0].(Term); ok && v.Sort == SSlice {
			return slCap(v)
		}
		l := fc.fresh("cap", SInt)
		fc.assume(st, tLe(intLit(0), l))
		return l
	case "append":
		return fc.doAppend(fr, st, instr, c, args)
	case "copy":
		fc.abstract(instr, "copy(): destination contents havoc'd")
		if d, ok := args[0].(Term); ok && d.Sort == SSlice {
			es := sortOf(c.Args[0].Type().Underlying().(*types.Slice).Elem())
			hn := elemHeapName(es)
			h := fc.heapRaw(st, hn, arrSort(SInt, arrSort(SInt, es)))
			fc.setHeap(st, hn, tStore(h, slArr(d), fc.fresh("copied", arrSort(SInt, es))))
		}
		n := fc.fresh("copyn", SInt)
		fc.assume(st, tLe(intLit(0), n))
		return n
	case "delete":
		mt, ok := unalias(c.Args[0].Type()).Underlying().(*types.Map)
		if ok {
			m, _ := args[0].(Term)
			k, kok := args[1].(Term)
			if kok {
				hasN, _, _, _ := fc.mapHeaps(st, mt)
				hh := st.heaps[hasN]
				fc.setHeap(st, hasN, tStore(hh, m, tStore(tSelect(hh, m), k, tFalse)))
				fc.checkStepInv(fr, st, instr)
			}
		}
		return nil
	case "min", "max":
		a, aok := args[0].(Term)
		bb, bok := args[1].(Term)
		if aok && bok && len(args) == 2 {
			if b.Name() == "min" {
				return tIte(tLe(a, bb), a, bb)
			}
			return tIte(tGe(a, bb), a, bb)
		}
	case "close":
		if ch, ok := args[0].(Term); ok {
			fc.chanClose(fr, st, c.Args[0], ch, instr)
		}
		return nil
	case "recover":
		p, _ := st.cells[keyPanicking].(Term)
		if p.S == "" {
			p = tFalse
		}
		st.cells[keyPanicking] = tFalse
		if p.S == "false" {
			return intLit(0)
		}
		r := fc.fresh("recovered", SInt)
		fc.assume(st, tEq(tEq(r, intLit(0)), tNot(p)))
		return r
	case "print", "println":
		return nil
	case "ssa:wrapnilchk":
		return args[0]
	case "ssa:deferstack":
		return intLit(0)
	}
	fc.abstract(instr, "builtin "+b.Name())
	if rt == nil {
		return nil
	}
	return fc.havocValue(st, "builtin", rt)
}

// doAppend models append(s, elems...) / append(s, t...).
func (fc *FnCtx) doAppend(fr *Frame, st *State, instr ssa.Instruction, c *ssa.CallCommon, args []Val) Val {
	st0, ok := args[0].(Term)
	resT := c.Args[0].Type()
	if isByteSlice(resT) {
		r := fc.fresh("appbytes", SBytes)
		return r
	}
	if !ok || st0.Sort != SSlice {
		return fc.havocValue(st, "append", resT)
	}
	es := sortOf(unalias(resT).Underlying().(*types.Slice).Elem())
	hn := elemHeapName(es)
	h := fc.heapRaw(st, hn, arrSort(SInt, arrSort(SInt, es)))
	// elements to append: the variadic argument of append(s, x, y) is a slice of a local array literal
	var elems []Term
	arg1 := args[1]
	if sl, ok := c.Args[1].(*ssa.Slice); ok && sl.Low == nil && sl.High == nil {
		if al, ok := sl.X.(*ssa.Alloc); ok {
			if av, ok := st.cells[cellKey{fr.id, al}].(*ArrVal); ok {
				arg1 = av
			}
		}
	}
	switch a := arg1.(type) {
	case *ArrVal:
		for _, e := range a.Elems {
			et, ok := e.(Term)
			if !ok || et.Sort != es {
				fc.abstract(instr, "append of unmodelled element")
				return fc.havocSliceAppend(st, st0, resT, nil)
			}
			elems = append(elems, et)
		}
	case Term:
		if a.Sort == SSlice {
			// append(s, t...): result has len(s)+len(t); contents: prefix preserved, suffix from t
			return fc.appendSlice(st, st0, a, es, hn, resT)
		}
		return fc.havocValue(st, "append", resT)
	default:
		return fc.havocValue(st, "append", resT)
	}
	if len(elems) == 0 {
		return st0
	}
	n := int64(len(elems))
	fits := tLe(tAdd(slLen(st0), intLit(n)), slCap(st0))
	// in-place case: same array; realloc case: fresh array with copied prefix
	newArr := fc.allocRef(st)
	arr := fc.nameTerm("apparr", tIte(fits, slArr(st0), newArr))
	off := fc.nameTerm("appoff", tIte(fits, slOff(st0), intLit(0)))
	newCap := fc.fresh("appcap", SInt)
	fc.assume(st, tAnd(tGe(newCap, tAdd(slLen(st0), intLit(n))), tLe(newCap, bigLit(maxLenS))))
	cp := fc.nameTerm("appcapv", tIte(fits, slCap(st0), newCap))
	// contents of the target array
	base := tSelect(h, slArr(st0))
	var content Term
	if true {
		// realloc copy: new array equals old shifted by off; expressed with a quantified fact
		fresharr := fc.fresh("apparrc", arrSort(SInt, es))
		fc.assume(st, T(SBool, fmt.Sprintf("(forall ((k Int)) (! (=> (and (<= 0 k) (< k %s)) (= (select %s (ix 0 k)) (select %s (ix %s k)))) :pattern ((select %s (ix 0 k)))))",
			slLen(st0).S, fresharr.S, base.S, slOff(st0).S, fresharr.S)))
		content = tIte(fits, base, fresharr)
	}
	content = fc.nameTerm("appc", content)
	for i, e := range elems {
		content = tStore(content, tIx(off, tAdd(slLen(st0), intLit(int64(i)))), e)
	}
	fc.setHeap(st, hn, tStore(h, arr, content))
	return fc.nameTerm("app", mkSlice(arr, off, tAdd(slLen(st0), intLit(n)), cp))
}

func (fc *FnCtx) appendSlice(st *State, s, t Term, es, hn string, resT types.Type) Val {
	h := st.heaps[hn]
	newArr := fc.allocRef(st)
	nl := fc.nameTerm("appl", tAdd(slLen(s), slLen(t)))
	newCap := fc.fresh("appcap", SInt)
	fc.assume(st, tAnd(tGe(newCap, nl), tLe(newCap, bigLit(maxLenS))))
	// always model as a fresh array (sound for reads through the result; aliasing writes into s's spare capacity are not tracked)
	fresharr := fc.fresh("apparrc", arrSort(SInt, es))
	sb := tSelect(h, slArr(s))
	tb := tSelect(h, slArr(t))
	qdef := T(SBool, fmt.Sprintf("(forall ((k Int)) (! (and (=> (and (<= 0 k) (< k %s)) (= (select %s (ix 0 k)) (select %s (ix %s k)))) (=> (and (<= %s k) (< k %s)) (= (select %s (ix 0 k)) (select %s (ix %s (- k %s)))))) :pattern ((select %s (ix 0 k)))))",
		slLen(s).S, fresharr.S, sb.S, slOff(s).S, slLen(s).S, nl.S, fresharr.S, tb.S, slOff(t).S, slLen(s).S, fresharr.S))
	// the same definition as an array lambda for the z3 family (decided by beta-reduction); cvc5 gets the
	// quantified twin (it has no array lambdas), z3 only the lambda (the quantified form made it diverge)
	junk := fc.fresh("appjunk", arrSort(SInt, es))
	ldef := T(SBool, fmt.Sprintf("(= %s (lambda ((k Int)) (ite (and (<= 0 k) (< k %s)) (select %s (ix %s k)) (ite (and (<= %s k) (< k %s)) (select %s (ix %s (- k %s))) (select %s k)))))",
		fresharr.S, slLen(s).S, sb.S, slOff(s).S, slLen(s).S, nl.S, tb.S, slOff(t).S, slLen(s).S, junk.S))
	fc.assertions = append(fc.assertions, "#cvc5#"+tImp(st.pc, qdef).S, "#z3#"+tImp(st.pc, ldef).S)
	fc.setHeap(st, hn, tStore(h, newArr, fresharr))
	fc.assumptions["append(s, t...) is modelled as always reallocating (writes into spare capacity of s are not visible through s's other aliases)"] = true
	return fc.nameTerm("app", mkSlice(newArr, intLit(0), nl, newCap))
}

func (fc *FnCtx) havocSliceAppend(st *State, s Term, t types.Type, _ []Term) Val {
	return fc.havocValue(st, "append", t)
}

// ---------------------------------------------------------------------------
// defer / go

func (fc *FnCtx) execDefer(fr *Frame, st *State, x *ssa.Defer) {
	// defers inside loops are only tolerated when benign (logging)
	inLoop := false
	for h := range fr.loopOrd {
		_ = h
	}
	b := x.Block()
	for _, s := range fr.fn.Blocks {
		for _, succ := range s.Succs {
			if succ.Dominates(s) && blockInLoop(succ, s, b) {
				inLoop = true
			}
		}
	}
	if inLoop {
		fc.abstract(x, "defer inside a loop ignored (logging closure)")
		return
	}
	c := x.Common()
	de := &deferEntry{call: c, instr: x}
	for _, a := range c.Args {
		de.args = append(de.args, fc.value(fr, st, a))
	}
	if _, isB := c.Value.(*ssa.Builtin); !isB {
		de.fnVal = fc.value(fr, st, c.Value)
	}
	de.flag = cellKey{fr.id, x}
	st.cells[de.flag] = tTrue
	fr.defers = append(fr.defers, de)
}

func blockInLoop(header, latch, b *ssa.BasicBlock) bool {
	// b in natural loop of (latch -> header)?
	if b == header {
		return true
	}
	seen := map[*ssa.BasicBlock]bool{header: true}
	stack := []*ssa.BasicBlock{latch}
	for len(stack) > 0 {
		x := stack[len(stack)-1]
		stack = stack[:len(stack)-1]
		if seen[x] {
			continue
		}
		seen[x] = true
		if x == b {
			return true
		}
		stack = append(stack, x.Preds...)
	}
	return false
}

func (fc *FnCtx) runDefers(fr *Frame, st *State, instr ssa.Instruction) {
	for i := len(fr.defers) - 1; i >= 0; i-- {
		de := fr.defers[i]
		flag, ok := st.cells[de.flag].(Term)
		if !ok || flag.S == "false" {
			continue
		}
		st.cells[de.flag] = tFalse
		if flag.S == "true" {
			fc.doCall(fr, st, de.instr, de.call, de.fnVal, de.args)
			continue
		}
		// conditional: run on a copy and merge
		run := st.clone()
		run.pc = fc.nameTerm("pc_defer", tAnd(st.pc, flag))
		fc.doCall(fr, run, de.instr, de.call, de.fnVal, de.args)
		skip := st.clone()
		skip.pc = fc.nameTerm("pc_nodefer", tAnd(st.pc, tNot(flag)))
		m := fc.mergeStates(fmt.Sprintf("f%ddefer%d", fr.id, i), []inEdge{{run, tTrue}, {skip, tTrue}})
		*st = *m
	}
}

func (fc *FnCtx) execGo(fr *Frame, st *State, x *ssa.Go) {
	c := x.Common()
	if c.IsInvoke() {
		return
	}
	var callee *ssa.Function
	switch v := c.Value.(type) {
	case *ssa.Function:
		callee = v
	case *ssa.MakeClosure:
		callee = v.Fn.(*ssa.Function)
	}
	if callee == nil {
		return
	}
	spec := fc.eng.specs[funcDisplayName(callee)]
	if spec == nil {
		// no contract: everything the goroutine (and what it calls) may write is unknown from now on;
		// it is havoc'd here and again at every later WaitGroup.Wait of this function
		ws := map[string]bool{}
		for h := range fc.eng.writeSet(callee) {
			ws[h] = true
		}
		fc.spawned = append(fc.spawned, ws)
		fc.havocWrites(st, ws)
		fc.abstract(x, "goroutine "+funcDisplayName(callee)+" spawned without contract: its write set is havoc'd at the spawn and at every WaitGroup.Wait")
		return
	}
	var args []Val
	for _, a := range c.Args {
		args = append(args, fc.value(fr, st, a))
	}
	env := fc.calleeEnv(spec, callee, callee.Signature, args)
	if mc, ok := c.Value.(*ssa.MakeClosure); ok {
		for i, fv := range callee.FreeVars {
			if i < len(mc.Bindings) {
				// the callee's contract refers to captured variables by name: bind their current values
				bv := fc.value(fr, st, mc.Bindings[i])
				elem := fv.Type().(*types.Pointer).Elem()
				if _, isS := isStructVal(elem); isS && namedPath(elem) != "time.Time" {
					env.bind(fv.Name(), bv, elem)
				} else {
					env.bind(fv.Name(), fc.load(st, bv, elem, x), elem)
				}
			}
		}
	}
	for i, rq := range spec.Requires {
		t := fc.evalClauseEnv(st, st, rq, env)
		fc.obligeClause(st, "go", fmt.Sprintf("%s:pre:%s", callee.Name(), clauseLabel(rq, i)), t, rq, x.Pos())
	}
}
