package main

import (
	"go/types"
	"strings"

	"golang.org/x/tools/go/ssa"
)

// Write kinds: a heap written only at references allocated by the writer itself (wFresh) keeps its
// contents at all older references; wFull may change anything.
const (
	wFresh = 1
	wFull  = 2
)

type writeSetT map[string]int

func (w writeSetT) add(name string, kind int) {
	if w[name] < kind {
		w[name] = kind
	}
}

func (w writeSetT) names() map[string]bool {
	m := map[string]bool{}
	for k := range w {
		m[k] = true
	}
	return m
}

// instrWrites gives the modelled locations an instruction may write (heaps by name, "$now",
// "$allocTop", "ghost:<name>"), using callee contracts (modifies) or syntactic write sets.
func instrWrites(e *Engine, instr ssa.Instruction) writeSetT {
	ws := writeSetT{}
	switch x := instr.(type) {
	case *ssa.Store:
		addrWrites(x.Addr, ws)
	case *ssa.MapUpdate:
		if mt, ok := unalias(x.Map.Type()).Underlying().(*types.Map); ok {
			h, v := mapHeapNames(mt)
			ws.add(h, wFull)
			ws.add(v, wFull)
		}
	case *ssa.Alloc:
		elem := x.Type().(*types.Pointer).Elem()
		if n, ok := isStructVal(elem); ok && namedPath(elem) != "time.Time" {
			structInitWrites(n, ws, 0, wFresh)
		}
	case *ssa.MakeSlice:
		if !isByteSlice(x.Type()) {
			ws.add(elemHeapName(sortOf(x.Type().Underlying().(*types.Slice).Elem())), wFresh)
		}
	case *ssa.MakeMap:
		if mt, ok := unalias(x.Type()).Underlying().(*types.Map); ok {
			h, _ := mapHeapNames(mt)
			ws.add(h, wFresh)
		}
	case *ssa.Slice:
		// slice literal: slicing a local array materialises a fresh backing array
		if pt, ok := unalias(x.X.Type()).Underlying().(*types.Pointer); ok {
			if _, isArr := unalias(pt.Elem()).Underlying().(*types.Array); isArr {
				if st, ok := unalias(x.Type()).Underlying().(*types.Slice); ok && !isByteSlice(x.Type()) {
					ws.add(elemHeapName(sortOf(st.Elem())), wFresh)
				}
			}
		}
	case *ssa.UnOp:
		// struct loads create snapshots
		if x.Op.String() == "*" {
			if n, ok := isStructVal(x.Type()); ok && namedPath(x.Type()) != "time.Time" {
				structInitWrites(n, ws, 0, wFresh)
			}
		}
	case ssa.CallInstruction:
		callWrites(e, x.Common(), ws)
	}
	return ws
}

func structInitWrites(n *types.Named, ws writeSetT, depth int, kind int) {
	s, ok := n.Underlying().(*types.Struct)
	if !ok || depth > 3 {
		return
	}
	if n.Obj().Pkg() != nil && !isRepoPkg(n.Obj().Pkg()) && n.Obj().Pkg().Path() != "sync/atomic" {
		return
	}
	for i := 0; i < s.NumFields(); i++ {
		f := s.Field(i)
		ws.add(structHeapName(n, f.Name()), kind)
		if nn, ok := isNestedStructField(f.Type()); ok {
			structInitWrites(nn, ws, depth+1, kind)
		}
	}
}

// freshBase reports whether the address is rooted in an object allocated by this very function
// activation (a local Alloc), through any chain of nested-struct field addresses.
func freshBase(v ssa.Value) bool {
	_, ok := allocBases(v, 0)
	return ok
}

// allocBases returns the allocation sites an address is rooted in when all of them are allocations of
// this very function activation: a local Alloc, a field address of one, or a load from a local
// pointer variable that is only ever assigned such allocations.
func allocBases(v ssa.Value, depth int) ([]*ssa.Alloc, bool) {
	if depth > 4 {
		return nil, false
	}
	switch a := v.(type) {
	case *ssa.Alloc:
		return []*ssa.Alloc{a}, true
	case *ssa.FieldAddr:
		return allocBases(a.X, depth+1)
	case *ssa.UnOp:
		cell, ok := a.X.(*ssa.Alloc)
		if !ok || a.Op.String() != "*" || cell.Referrers() == nil {
			return nil, false
		}
		if _, isPtr := unalias(cell.Type().(*types.Pointer).Elem()).Underlying().(*types.Pointer); !isPtr {
			return nil, false
		}
		var bases []*ssa.Alloc
		stores := 0
		for _, ref := range *cell.Referrers() {
			switch r := ref.(type) {
			case *ssa.Store:
				if r.Addr != cell {
					return nil, false // the cell's address escapes as a stored value
				}
				stores++
				na, ok := r.Val.(*ssa.Alloc)
				if !ok {
					return nil, false
				}
				bases = append(bases, na)
			case *ssa.UnOp, *ssa.DebugRef:
			default:
				return nil, false // address passed elsewhere
			}
		}
		if stores == 0 {
			return nil, false
		}
		return bases, true
	}
	return nil, false
}

func addrWrites(addr ssa.Value, ws writeSetT) {
	switch a := addr.(type) {
	case *ssa.FieldAddr:
		n, s := structOf(a.X.Type())
		if s != nil {
			kind := wFull
			if freshBase(a.X) {
				kind = wFresh
			}
			f := s.Field(a.Field)
			if nn, ok := isNestedStructField(f.Type()); ok {
				structInitWrites(nn, ws, 0, kind) // whole-struct assignment
			} else {
				ws.add(structHeapName(n, f.Name()), kind)
			}
		}
	case *ssa.IndexAddr:
		if st, ok := unalias(a.X.Type()).Underlying().(*types.Slice); ok {
			ws.add(elemHeapName(sortOf(st.Elem())), wFull)
		}
	case *ssa.Alloc:
		elem := a.Type().(*types.Pointer).Elem()
		if n, ok := isStructVal(elem); ok && namedPath(elem) != "time.Time" {
			structInitWrites(n, ws, 0, wFresh)
		}
	case *ssa.Global, *ssa.FreeVar:
		// cells, not heaps
	default:
		// store through a pointer value of unknown provenance
		if pt, ok := unalias(addr.Type()).Underlying().(*types.Pointer); ok {
			if n, ok := isStructVal(pt.Elem()); ok && namedPath(pt.Elem()) != "time.Time" {
				structInitWrites(n, ws, 0, wFull)
			} else {
				ws.add(boxHeapName(sortOf(pt.Elem())), wFull)
			}
		}
	}
}

func callWrites(e *Engine, c *ssa.CallCommon, ws writeSetT) {
	if c.IsInvoke() {
		rtype := unalias(c.Value.Type())
		if n, ok := rtype.(*types.Named); ok {
			if spec := e.findIfaceSpec(n, c.Method.Name()); spec != nil {
				for _, m := range spec.Modifies {
					ws.add(e.resolveModifies(spec.Pkg, m), wFull)
				}
			}
			key := n.Obj().Name() + "." + c.Method.Name()
			if n.Obj().Pkg() != nil {
				key = shortPkg(n.Obj().Pkg().Path()) + "." + key
			}
			for _, w := range ifaceModelWrites[key] {
				ws.add(w, wFull)
			}
		}
		return
	}
	if b, ok := c.Value.(*ssa.Builtin); ok {
		switch b.Name() {
		case "append":
			if st, ok := unalias(c.Args[0].Type()).Underlying().(*types.Slice); ok && !isByteSlice(c.Args[0].Type()) {
				ws.add(elemHeapName(sortOf(st.Elem())), wFull)
				ws.add("$allocTop", wFull)
			}
		case "copy":
			if st, ok := unalias(c.Args[0].Type()).Underlying().(*types.Slice); ok && !isByteSlice(c.Args[0].Type()) {
				ws.add(elemHeapName(sortOf(st.Elem())), wFull)
			}
		case "delete":
			if mt, ok := unalias(c.Args[0].Type()).Underlying().(*types.Map); ok {
				h, _ := mapHeapNames(mt)
				ws.add(h, wFull)
			}
		}
		return
	}
	var callee *ssa.Function
	switch v := c.Value.(type) {
	case *ssa.Function:
		callee = v
	case *ssa.MakeClosure:
		callee = v.Fn.(*ssa.Function)
	}
	if callee == nil {
		// function value with a `field` contract: its declared frame (incl. ghost effects)
		if fs := (&FnCtx{eng: e}).fieldSpecFor(c.Value); fs != nil {
			for _, m := range fs.Modifies {
				ws.add(e.resolveModifies(fs.Pkg, m), wFull)
			}
			return
		}
		// a call through a local / captured function variable (worker := func...; go func(){ worker(i) }()):
		// it may be any closure created by the enclosing top-level function
		if u, ok := c.Value.(*ssa.UnOp); ok {
			var holder *ssa.Function
			switch x := u.X.(type) {
			case *ssa.Alloc:
				holder = x.Parent()
			case *ssa.FreeVar:
				holder = x.Parent()
			}
			if holder != nil {
				root := holder
				for root.Parent() != nil {
					root = root.Parent()
				}
				var rec func(f *ssa.Function)
				rec = func(f *ssa.Function) {
					for _, a := range f.AnonFuncs {
						if sig := a.Signature; types.Identical(sig, c.Signature()) {
							for h, k := range e.writeSet(a) {
								ws.add(h, k)
							}
						}
						rec(a)
					}
				}
				rec(root)
			}
		}
		// unknown function value: may write through the struct pointers it receives
		if _, isFn := fieldSpecKeyOf(c.Value); !isFn {
			for _, a := range c.Args {
				if pt, ok := unalias(a.Type()).Underlying().(*types.Pointer); ok {
					if n, ok := isStructVal(pt.Elem()); ok && namedPath(pt.Elem()) != "time.Time" {
						structInitWrites(n, ws, 0, wFull)
					}
				}
			}
		}
		return
	}
	mname := calleeModelName(callee)
	if mname == "maps.DeleteFunc" && len(c.Args) > 0 {
		if mt, ok := unalias(c.Args[0].Type()).Underlying().(*types.Map); ok {
			h, _ := mapHeapNames(mt)
			ws.add(h, wFull)
		}
		return
	}
	if strings.HasSuffix(mname, "serde.Read") {
		for _, a := range c.Args {
			if mi, isMI := a.(*ssa.MakeInterface); isMI {
				if n, isS := isStructPtr(mi.X.Type()); isS {
					kind := wFull
					if freshBase(mi.X) {
						kind = wFresh // decoding into an object allocated by this activation
					}
					if s, ok := n.Underlying().(*types.Struct); ok {
						for i := 0; i < s.NumFields(); i++ {
							ws.add(structHeapName(n, s.Field(i).Name()), kind)
						}
					}
				}
			}
		}
		ws.add("$allocTop", wFull)
		return
	}
	ex := e.externs[mname+instSuffix(callee)]
	if ex == nil {
		ex = e.externs[mname]
	}
	if ex != nil {
		for _, m := range ex.Modifies {
			ws.add(e.resolveModifies(ex.Pkg, m), wFull)
		}
		return
	}
	if w, ok := modelWrites[mname]; ok {
		for _, x := range w {
			ws.add(x, wFull)
		}
		return
	}
	if _, ok := models[mname]; ok {
		return
	}
	if isNoopCallee(callee) {
		return
	}
	if spec := e.specs[funcDisplayName(callee)]; spec != nil && !spec.Inline {
		declared := map[string]bool{}
		for _, m := range spec.Modifies {
			h := e.resolveModifies(spec.Pkg, m)
			declared[h] = true
			ws.add(h, wFull)
		}
		// everything else the callee writes is confined to fresh objects (its frame obligation)
		for h := range e.writeSet(callee) {
			if !declared[h] {
				if strings.HasPrefix(h, "$") || strings.HasPrefix(h, "ghost:") {
					ws.add(h, wFull)
				} else {
					ws.add(h, wFresh)
				}
			}
		}
		return
	}
	for h, k := range e.writeSet(callee) {
		ws.add(h, k)
	}
	if callee.Blocks == nil {
		// external function: may write through struct pointers it receives (also when boxed into an interface)
		for _, a := range c.Args {
			if pt, ok := unalias(a.Type()).Underlying().(*types.Pointer); ok {
				if n, ok := isStructVal(pt.Elem()); ok && namedPath(pt.Elem()) != "time.Time" {
					forceAll(n, ws, 0)
				}
			} else if mi, isMI := a.(*ssa.MakeInterface); isMI {
				if n, isS := isStructPtr(mi.X.Type()); isS {
					forceAll(n, ws, 0)
				}
			}
		}
	}
}

func fieldSpecKeyOf(v ssa.Value) (string, bool) { return "", false }

// writeSet computes (memoised, recursion-safe) the syntactic write set of a repo function.
func (e *Engine) writeSet(fn *ssa.Function) writeSetT {
	if o := fn.Origin(); o != nil {
		fn = o
	}
	if ws, ok := e.writeSets[fn]; ok {
		return ws
	}
	ws := writeSetT{}
	e.writeSets[fn] = ws // break recursion
	for _, b := range fn.Blocks {
		for _, instr := range b.Instrs {
			for h, k := range instrWrites(e, instr) {
				ws.add(h, k)
			}
			if mc, ok := instr.(*ssa.MakeClosure); ok {
				// closures created here may be invoked later by anyone
				for h, k := range e.writeSet(mc.Fn.(*ssa.Function)) {
					ws.add(h, k)
				}
			}
		}
	}
	return ws
}

// designatorSort gives the SMT sort of the heap named by a modifies-style designator ("" if unknown).
func (e *Engine) designatorSort(pkg, m string) string {
	m = strings.TrimSpace(m)
	if strings.HasPrefix(m, "elems(") && strings.HasSuffix(m, ")") {
		return arrSort(SInt, arrSort(SInt, specSort(m[6:len(m)-1])))
	}
	parts := strings.Split(m, ".")
	if len(parts) == 3 {
		pkg = parts[0]
		parts = parts[1:]
	}
	if len(parts) == 2 {
		if t, ok := e.lookupNamedType(pkg, parts[0]).(*types.Named); ok {
			if s, ok := t.Underlying().(*types.Struct); ok {
				for i := 0; i < s.NumFields(); i++ {
					if s.Field(i).Name() == parts[1] {
						if _, nested := isNestedStructField(s.Field(i).Type()); nested {
							return arrSort(SInt, SInt)
						}
						return arrSort(SInt, sortOf(s.Field(i).Type()))
					}
				}
			}
		}
	}
	return ""
}

// resolveModifies turns "Struct.field", "pkg.Struct.field", "elems(Hdr)", "ghost:name", "$now" into heap names.
func (e *Engine) resolveModifies(pkg, m string) string {
	m = strings.TrimSpace(m)
	switch {
	case strings.HasPrefix(m, "$"), strings.HasPrefix(m, "ghost:"), strings.HasPrefix(m, "F_"), strings.HasPrefix(m, "EH_"), strings.HasPrefix(m, "MH_"), strings.HasPrefix(m, "BOX_"), strings.HasPrefix(m, "DS_"), strings.HasPrefix(m, "AP_"), strings.HasPrefix(m, "AT_"):
		return m
	case strings.HasPrefix(m, "elems(") && strings.HasSuffix(m, ")"):
		return elemHeapName(specSort(m[6 : len(m)-1]))
	}
	parts := strings.Split(m, ".")
	if len(parts) == 3 {
		pkg = parts[0]
		parts = parts[1:]
	}
	if len(parts) == 2 {
		if t, ok := e.lookupNamedType(pkg, parts[0]).(*types.Named); ok {
			return structHeapName(t, parts[1])
		}
	}
	if _, ok := e.ghosts[m]; ok {
		return "ghost:" + m
	}
	e.bindErrors = append(e.bindErrors, "cannot resolve modifies target "+m+" in package "+pkg)
	return "UNRESOLVED_" + sanitize(m)
}
