package main

import (
	"bytes"
	"context"
	"encoding/json"
	"fmt"
	"go/types"
	"os"
	"os/exec"
	"path/filepath"
	"regexp"
	"sort"
	"strings"
	"time"

	"golang.org/x/tools/go/ssa"
)

// Replay of a solver counterexample against the real code.
//
// A failed obligation that comes with a model (status "failed": some solver answered sat) is replayed when
// the function's inputs can be rebuilt from the model: scalar parameters, header parameters (rebuilt as
// headertest.DummyHeader with the model's height and time), a context, and a receiver that points to a struct
// of scalar fields (pointer-to-struct fields of scalar fields one level down included; every other field is
// left at its zero value). The generated in-package test is injected with `go test -overlay` (nothing is
// written to the repository), calls the real function on those inputs and prints what happened.
//   safety obligations (div0, index, slice, make, nopanic): reproduced iff the call panics;
//   ensures obligations over scalar results: the clause is evaluated on the inputs and the ACTUAL results
//     (by a ground SMT query) and is reproduced iff it is false for them.
// Anything else answers "no-template" and the VIOLATION line keeps its no-failing-input-found suffix.

type replayArg struct {
	goExpr string // Go expression of the argument
}

type replayPlan struct {
	pkgDir   string
	pkgName  string
	terms    map[string]string // label -> SMT term to evaluate in the model
	build    func(vals map[string]string) (recv string, args []string, ok bool)
	method   bool
	name     string
	results  []types.Type
	needHT   bool
	needTime bool
	needCtx  bool
	sliceTerms []string // []H fields whose elements have to be fetched in a second pass
}

func isScalar(t types.Type) bool {
	t = unalias(t)
	if namedPath(t) == "time.Duration" || namedPath(t) == "time.Time" {
		return true
	}
	b, ok := t.Underlying().(*types.Basic)
	if !ok {
		return false
	}
	return b.Info()&(types.IsInteger|types.IsBoolean) != 0
}

func smtIntValue(v string) (string, bool) {
	v = strings.TrimSpace(v)
	if m := regexp.MustCompile(`^\(-\s*(\d+)\)$`).FindStringSubmatch(v); m != nil {
		return "-" + m[1], true
	}
	if regexp.MustCompile(`^\d+$`).MatchString(v) {
		return v, true
	}
	return "", false
}

func goScalar(t types.Type, v string, p *replayPlan) (string, bool) {
	t = unalias(t)
	if b, ok := t.Underlying().(*types.Basic); ok && b.Info()&types.IsBoolean != 0 {
		if v == "true" || v == "false" {
			return v, true
		}
		return "", false
	}
	n, ok := smtIntValue(v)
	if !ok {
		return "", false
	}
	switch namedPath(t) {
	case "time.Duration":
		p.needTime = true
		return "time.Duration(" + n + ")", true
	case "time.Time":
		p.needTime = true
		return "time.Unix(0, " + n + ").UTC()", true
	}
	return types.TypeString(t, func(*types.Package) string { return "" }) + "(" + n + ")", true
}

func planReplay(eng *Engine, fn *ssa.Function, ob *Obligation) *replayPlan {
	if fn == nil || fn.Pkg == nil || fn.Parent() != nil {
		return nil
	}
	path := fn.Pkg.Pkg.Path()
	if !strings.HasPrefix(path, repoModule+"/") {
		return nil // the root package cannot import headertest from an in-package test
	}
	p := &replayPlan{pkgDir: strings.TrimPrefix(path, repoModule+"/"), pkgName: fn.Pkg.Pkg.Name(), terms: map[string]string{}, name: fn.Name()}
	sig := fn.Signature
	for i := 0; i < sig.Results().Len(); i++ {
		p.results = append(p.results, sig.Results().At(i).Type())
	}
	declared := func(sym string) bool { _, ok := ob.fc.decls.text[sym]; return ok }
	type argSpec struct {
		kind   string // scalar | hdr | ctx | recv
		typ    types.Type
		sym    string
		fields []fieldSpec
		named  *types.Named
	}
	var specs []argSpec
	for i, prm := range fn.Params {
		name := prm.Name()
		if name == "_" || name == "" {
			name = fmt.Sprintf("arg%d", i)
		}
		sym := "in_" + sanitize(name)
		t := prm.Type()
		switch {
		case i == 0 && sig.Recv() != nil:
			n, ok := isStructPtr(t)
			if !ok || n.Obj().Pkg() == nil || n.Obj().Pkg().Path() != path {
				return nil
			}
			p.method = true
			fs, ok := scalarFields(n, sym, 0, declared, p)
			if !ok {
				return nil
			}
			specs = append(specs, argSpec{kind: "recv", typ: t, sym: sym, fields: fs, named: n})
		case isScalar(t):
			p.terms["arg:"+sym] = sym
			specs = append(specs, argSpec{kind: "scalar", typ: t, sym: sym})
		case isTypeParam(t):
			p.terms["h:"+sym] = "(height " + sym + ")"
			p.terms["t:"+sym] = "(htime " + sym + ")"
			p.terms["z:"+sym] = "(isZero " + sym + ")"
			p.needHT, p.needTime = true, true
			specs = append(specs, argSpec{kind: "hdr", typ: t, sym: sym})
		case namedPath(t) == "context.Context":
			p.needCtx = true
			specs = append(specs, argSpec{kind: "ctx"})
		default:
			return nil
		}
		if !declared(sym) && specs[len(specs)-1].kind != "ctx" {
			return nil
		}
	}
	p.build = func(vals map[string]string) (string, []string, bool) {
		recv := ""
		var args []string
		for _, a := range specs {
			switch a.kind {
			case "recv":
				lit, ok := structLiteral(a.named, a.fields, vals, p)
				if !ok {
					return "", nil, false
				}
				recv = "&" + lit
			case "scalar":
				g, ok := goScalar(a.typ, vals["arg:"+a.sym], p)
				if !ok {
					return "", nil, false
				}
				args = append(args, g)
			case "hdr":
				if vals["z:"+a.sym] == "true" {
					args = append(args, "(*headertest.DummyHeader)(nil)")
					continue
				}
				h, ok1 := smtIntValue(vals["h:"+a.sym])
				tm, ok2 := smtIntValue(vals["t:"+a.sym])
				if !ok1 || !ok2 {
					return "", nil, false
				}
				args = append(args, fmt.Sprintf("&headertest.DummyHeader{Chainid: \"replay\", HeightI: %s, Timestamp: time.Unix(0, %s).UTC()}", h, tm))
			case "ctx":
				args = append(args, "context.Background()")
			}
		}
		return recv, args, true
	}
	return p
}

type fieldSpec struct {
	name  string
	typ   types.Type
	label string      // scalar: label of the term
	inner []fieldSpec // pointer to struct
	named *types.Named
	hdrSlice string // []H field: SMT term of the slice
}

func scalarFields(n *types.Named, ref string, depth int, declared func(string) bool, p *replayPlan) ([]fieldSpec, bool) {
	st, ok := n.Underlying().(*types.Struct)
	if !ok {
		return nil, false
	}
	var out []fieldSpec
	for i := 0; i < st.NumFields(); i++ {
		f := st.Field(i)
		heap := structHeapName(n, f.Name()) + "_0"
		if !declared(heap) {
			continue // never read by the function: irrelevant for the counterexample
		}
		term := fmt.Sprintf("(select %s %s)", heap, ref)
		switch {
		case isScalar(f.Type()):
			label := "f:" + term
			p.terms[label] = term
			out = append(out, fieldSpec{name: f.Name(), typ: f.Type(), label: label})
		default:
			if in, ok := isStructPtr(f.Type()); ok && depth < 1 && in.Obj().Pkg() != nil && strings.HasPrefix(in.Obj().Pkg().Path(), repoModule) {
				fs, ok := scalarFields(in, term, depth+1, declared, p)
				if !ok {
					return nil, false
				}
				out = append(out, fieldSpec{name: f.Name(), typ: f.Type(), inner: fs, named: in})
			}
			// a slice of headers: its length and the elements' heights/times come from the model
			if sl, ok := unalias(f.Type()).Underlying().(*types.Slice); ok && isTypeParam(sl.Elem()) {
				label := "sl:" + term
				p.terms[label] = "(s-len " + term + ")"
				p.sliceTerms = append(p.sliceTerms, term)
				out = append(out, fieldSpec{name: f.Name(), typ: f.Type(), label: label, hdrSlice: term})
			}
			// other fields (interfaces, channels, maps, ...) stay zero
		}
	}
	return out, true
}

func structLiteral(n *types.Named, fs []fieldSpec, vals map[string]string, p *replayPlan) (string, bool) {
	name := n.Obj().Name()
	if n.TypeParams() != nil && n.TypeParams().Len() > 0 {
		name += "[*headertest.DummyHeader]"
		p.needHT = true
	}
	var parts []string
	for _, f := range fs {
		if f.inner != nil {
			lit, ok := structLiteral(f.named, f.inner, vals, p)
			if !ok {
				return "", false
			}
			parts = append(parts, f.name+": &"+lit)
			continue
		}
		if f.hdrSlice != "" {
			ln, ok := smtIntValue(vals[f.label])
			if !ok {
				return "", false
			}
			var n int
			fmt.Sscan(ln, &n)
			if n < 0 || n > 64 {
				return "", false
			}
			var els []string
			for i := 0; i < n; i++ {
				h, ok1 := smtIntValue(vals[fmt.Sprintf("elh:%s:%d", f.hdrSlice, i)])
				tm, ok2 := smtIntValue(vals[fmt.Sprintf("elt:%s:%d", f.hdrSlice, i)])
				if !ok1 || !ok2 {
					return "", false
				}
				els = append(els, fmt.Sprintf("{Chainid: \"replay\", HeightI: %s, Timestamp: time.Unix(0, %s).UTC()}", h, tm))
			}
			p.needHT, p.needTime = true, true
			parts = append(parts, f.name+": []*headertest.DummyHeader{"+strings.Join(els, ", ")+"}")
			continue
		}
		g, ok := goScalar(f.typ, vals[f.label], p)
		if !ok {
			return "", false
		}
		parts = append(parts, f.name+": "+g)
	}
	return name + "{" + strings.Join(parts, ", ") + "}", true
}

// modelValues evaluates the given terms in a model of the failed obligation's query.
func modelValues(ob *Obligation, terms map[string]string) (map[string]string, bool) {
	var labels []string
	for l := range terms {
		labels = append(labels, l)
	}
	sort.Strings(labels)
	if len(labels) == 0 {
		return map[string]string{}, true
	}
	q := ob.query("z3")
	if ob.ModelQuery != "" {
		q = ob.ModelQuery
	}
	q = strings.Replace(q, "(get-model)\n", "", 1)
	for _, l := range labels {
		q += "(get-value (" + terms[l] + "))\n"
	}
	f, err := os.CreateTemp("", "govc-replay-*.smt2")
	if err != nil {
		return nil, false
	}
	defer os.Remove(f.Name())
	f.WriteString(q)
	f.Close()
	cctx, cancel := context.WithTimeout(context.Background(), 40*time.Second)
	defer cancel()
	outb, _ := exec.CommandContext(cctx, "z3-new", "-T:30", f.Name()).CombinedOutput()
	lines := strings.Split(strings.TrimSpace(string(outb)), "\n")
	if len(lines) == 0 || strings.TrimSpace(lines[0]) != "sat" {
		return nil, false
	}
	// each get-value prints ((term value)) possibly over several lines: join and split on top-level "(("
	rest := strings.Join(lines[1:], " ")
	var chunks []string
	depth, start := 0, -1
	for i := 0; i < len(rest); i++ {
		switch rest[i] {
		case '(':
			if depth == 0 {
				start = i
			}
			depth++
		case ')':
			depth--
			if depth == 0 && start >= 0 {
				chunks = append(chunks, rest[start:i+1])
				start = -1
			}
		}
	}
	if len(chunks) != len(labels) {
		return nil, false
	}
	vals := map[string]string{}
	for i, l := range labels {
		c := strings.TrimSpace(chunks[i])
		c = strings.TrimSuffix(strings.TrimPrefix(c, "(("), "))")
		// c = "<term> <value>": the value is the last balanced token
		vals[l] = lastToken(c)
	}
	return vals, true
}

func lastToken(s string) string {
	s = strings.TrimSpace(s)
	if strings.HasSuffix(s, ")") {
		depth := 0
		for i := len(s) - 1; i >= 0; i-- {
			switch s[i] {
			case ')':
				depth++
			case '(':
				depth--
				if depth == 0 {
					return s[i:]
				}
			}
		}
		return s
	}
	if i := strings.LastIndexAny(s, " \t"); i >= 0 {
		return s[i+1:]
	}
	return s
}

func tryReplay(eng *Engine, ob *Obligation, repo, outDir string) (string, string, string) {
	if ob.Model == "" || ob.fc == nil {
		return "", "", ""
	}
	safety := false
	switch ob.Kind {
	case "div0", "index", "slice", "make", "nopanic":
		safety = true
	case "ensures":
	default:
		return "no-template", "", ""
	}
	fn := eng.funcs[ob.Func]
	plan := planReplay(eng, fn, ob)
	if plan == nil {
		return "no-template", "", ""
	}
	vals, ok := modelValues(ob, plan.terms)
	if !ok {
		return "no-template", "", "model values could not be extracted"
	}
	// second pass: elements of header slices
	if len(plan.sliceTerms) > 0 {
		extra := map[string]string{}
		for _, stTerm := range plan.sliceTerms {
			ln, ok := smtIntValue(vals["sl:"+stTerm])
			var n int
			fmt.Sscan(ln, &n)
			if ok && n > 64 && !strings.Contains(ob.ModelQuery, "; small-slices") {
				// ask for a counterexample with short slices instead
				q := ob.ModelQuery
				if q == "" {
					q = ob.query("z3")
				}
				var cons string
				for _, t2 := range plan.sliceTerms {
					cons += "(assert (<= (s-len " + t2 + ") 8))\n"
				}
				q = strings.Replace(q, "(check-sat)", "; small-slices\n"+cons+"(check-sat)", 1)
				saved := ob.ModelQuery
				ob.ModelQuery = q
				if v2, ok2 := modelValues(ob, plan.terms); ok2 {
					vals = v2
					ln, ok = smtIntValue(vals["sl:"+stTerm])
					n = 0
					fmt.Sscan(ln, &n)
				} else {
					ob.ModelQuery = saved
				}
			}
			if !ok || n < 0 || n > 64 {
				return "no-template", "", "header slice too long to rebuild"
			}
			if _, d := ob.fc.decls.text["EH_Hdr_0"]; !d && n > 0 {
				// elements never read: any headers will do
				for i := 0; i < n; i++ {
					vals[fmt.Sprintf("elh:%s:%d", stTerm, i)] = fmt.Sprint(i + 1)
					vals[fmt.Sprintf("elt:%s:%d", stTerm, i)] = "0"
				}
				continue
			}
			for i := 0; i < n; i++ {
				el := fmt.Sprintf("(select (select EH_Hdr_0 (s-arr %s)) (ix (s-off %s) %d))", stTerm, stTerm, i)
				extra[fmt.Sprintf("elh:%s:%d", stTerm, i)] = "(height " + el + ")"
				extra[fmt.Sprintf("elt:%s:%d", stTerm, i)] = "(htime " + el + ")"
			}
		}
		if len(extra) > 0 {
			ev, ok := modelValues(ob, extra)
			if !ok {
				return "no-template", "", "slice elements could not be extracted from the model"
			}
			for k, v := range ev {
				vals[k] = v
				plan.terms[k] = extra[k]
			}
		}
	}
	recv, args, ok := plan.build(vals)
	if !ok {
		return "no-template", "", "inputs could not be rebuilt from the model"
	}
	if ok, why := inputsAdmissible(eng, ob, fn, plan, vals); !ok {
		return "not-reproduced", "", "candidate inputs discarded: " + why
	}
	call := plan.name + "(" + strings.Join(args, ", ") + ")"
	if plan.method {
		call = "recv." + call
	} else if fn.TypeParams() != nil && fn.TypeParams().Len() > 0 {
		call = plan.name + "[*headertest.DummyHeader](" + strings.Join(args, ", ") + ")"
		plan.needHT = true
	}
	var b strings.Builder
	fmt.Fprintf(&b, "package %s\n\nimport (\n\t\"fmt\"\n\t\"testing\"\n", plan.pkgName)
	if plan.needCtx {
		b.WriteString("\t\"context\"\n")
	}
	if plan.needTime {
		b.WriteString("\t\"time\"\n")
	}
	if plan.needHT {
		b.WriteString("\t\"" + repoModule + "/headertest\"\n")
	}
	b.WriteString(")\n\n// generated by govc from the solver model of " + ob.Name + "\nfunc TestGovcReplay(t *testing.T) {\n")
	b.WriteString("\tdefer func() {\n\t\tif r := recover(); r != nil {\n\t\t\tfmt.Printf(\"GOVC-PANIC %v\\n\", r)\n\t\t}\n\t}()\n")
	if plan.method {
		b.WriteString("\trecv := " + recv + "\n")
	}
	switch len(plan.results) {
	case 0:
		b.WriteString("\t" + call + "\n\tfmt.Println(\"GOVC-RESULT\")\n")
	default:
		var rs []string
		for i := range plan.results {
			rs = append(rs, fmt.Sprintf("r%d", i))
		}
		b.WriteString("\t" + strings.Join(rs, ", ") + " := " + call + "\n")
		b.WriteString("\tfmt.Print(\"GOVC-RESULT\")\n")
		for i, rt := range plan.results {
			if isErrorType(rt) {
				fmt.Fprintf(&b, "\tif r%d == nil {\n\t\tfmt.Print(\" nil\")\n\t} else {\n\t\tfmt.Print(\" non-nil\")\n\t}\n", i)
			} else if namedPath(unalias(rt)) == "time.Duration" {
				fmt.Fprintf(&b, "\tfmt.Printf(\" %%d\", int64(r%d))\n", i)
			} else {
				fmt.Fprintf(&b, "\tfmt.Printf(\" %%v\", r%d)\n", i)
			}
		}
		b.WriteString("\tfmt.Println()\n")
	}
	b.WriteString("}\n")
	test := b.String()

	tmp, err := os.MkdirTemp("", "govc-replay-")
	if err != nil {
		return "no-template", test, err.Error()
	}
	defer os.RemoveAll(tmp)
	tf := filepath.Join(tmp, "zz_govc_replay_test.go")
	os.WriteFile(tf, []byte(test), 0o644)
	ov, _ := json.Marshal(map[string]any{"Replace": map[string]string{filepath.Join(repo, plan.pkgDir, "zz_govc_replay_test.go"): tf}})
	ovf := filepath.Join(tmp, "overlay.json")
	os.WriteFile(ovf, ov, 0o644)
	cctx, cancel := context.WithTimeout(context.Background(), 180*time.Second)
	defer cancel()
	cmd := exec.CommandContext(cctx, "go", "test", "-overlay", ovf, "-vet=off", "-v", "-count=1", "-timeout", "60s", "-run", "^TestGovcReplay$", "./"+plan.pkgDir+"/")
	cmd.Dir = repo
	cmd.Env = append(os.Environ(), "GOFLAGS=-mod=mod", "GOPROXY=off", "GOTOOLCHAIN=local")
	var outb bytes.Buffer
	cmd.Stdout, cmd.Stderr = &outb, &outb
	cmd.Run()
	out := outb.String()
	if len(out) > 6000 {
		out = out[:6000]
	}
	panicked := strings.Contains(out, "GOVC-PANIC") || strings.Contains(out, "panic:")
	if safety {
		if panicked {
			return "reproduced", test, out
		}
		return "not-reproduced", test, out
	}
	if panicked {
		return "reproduced", test, out // an ensures clause cannot hold for a call that panics
	}
	// ensures: evaluate the clause on the inputs and the ACTUAL results
	m := regexp.MustCompile(`(?m)^GOVC-RESULT(.*)$`).FindStringSubmatch(out)
	if m == nil {
		return "not-reproduced", test, out
	}
	actual := strings.Fields(m[1])
	if len(actual) != len(plan.results) {
		return "not-reproduced", test, out
	}
	holds, why := clauseHoldsOn(eng, ob, fn, plan, vals, actual)
	out += "\n" + why
	switch holds {
	case "false":
		return "reproduced", test, out
	case "true":
		return "not-reproduced", test, out
	}
	return "not-reproduced", test, out
}

// inputsAdmissible: the rebuilt inputs must be able to satisfy every precondition of the contract (a
// candidate model found in a weakened query could lie outside the contract; such inputs prove nothing).
func inputsAdmissible(eng *Engine, ob *Obligation, fn *ssa.Function, plan *replayPlan, vals map[string]string) (ok bool, why string) {
	spec := eng.specs[ob.Func]
	if spec == nil || len(spec.Requires) == 0 {
		return true, ""
	}
	defer func() {
		if r := recover(); r != nil {
			ok, why = false, fmt.Sprintf("preconditions not evaluable on concrete inputs: %v", r)
		}
	}()
	fc := newFnCtx(eng, fn, spec)
	fr := fc.newFrame(fn, spec, 0)
	fr.top = true
	fc.topFrame = fr
	st := &State{pc: tTrue, cells: map[cellKey]Val{}, heaps: map[string]Term{}}
	for i, p := range fn.Params {
		pname := p.Name()
		if pname == "_" || pname == "" {
			pname = fmt.Sprintf("arg%d", i)
		}
		fr.env[p] = fc.havocNamed(st, "in_"+pname, p.Type())
	}
	fc.entry = st.clone()
	env := fc.topEnv(fr, spec)
	var reqs []string
	for _, rq := range spec.Requires {
		if len(rq.Tags) > 0 && !hasProp(rq.Tags, eng.activeProp) && eng.activeProp != "" {
			continue
		}
		reqs = append(reqs, fc.evalClauseEnv(st, st, rq, env).S)
	}
	var q strings.Builder
	q.WriteString(smtPrelude)
	q.WriteString(fc.decls.dump())
	for _, a := range fc.assertions {
		q.WriteString("(assert " + a + ")\n")
	}
	for l, term := range plan.terms {
		declared := true
		for _, sym := range symRe.FindAllString(term, -1) {
			if !smtVocabulary[sym] && !map[string]bool{"ix": true, "len": true, "arr": true, "off": true, "cap": true, "mk": true, "slice": true, "htime": true}[sym] {
				if _, d := fc.decls.text[sym]; !d {
					declared = false
				}
			}
		}
		if declared {
			q.WriteString("(assert (= " + term + " " + vals[l] + "))\n")
		}
	}
	for _, r := range reqs {
		q.WriteString("(assert " + r + ")\n")
	}
	q.WriteString("(check-sat)\n")
	f, err := os.CreateTemp("", "govc-replay-pre-*.smt2")
	if err != nil {
		return false, err.Error()
	}
	defer os.Remove(f.Name())
	f.WriteString(q.String())
	f.Close()
	cctx, cancel := context.WithTimeout(context.Background(), 30*time.Second)
	defer cancel()
	outb, _ := exec.CommandContext(cctx, "z3-new", "-T:20", f.Name()).CombinedOutput()
	first := strings.TrimSpace(strings.SplitN(string(outb), "\n", 2)[0])
	if first == "unsat" {
		return false, "they violate the function's preconditions"
	}
	return true, ""
}

// clauseHoldsOn evaluates the failed ensures clause with the parameters fixed to the model's inputs and the
// results fixed to what the real code returned ("true" | "false" | "unknown").
func clauseHoldsOn(eng *Engine, ob *Obligation, fn *ssa.Function, plan *replayPlan, vals map[string]string, actual []string) (res string, why string) {
	spec := eng.specs[ob.Func]
	if spec == nil {
		return "unknown", "no contract"
	}
	label := ob.Name[strings.Index(ob.Name, "#ensures:")+len("#ensures:"):]
	var clause *Clause
	for i := range spec.Ensures {
		if clauseLabel(spec.Ensures[i], i) == label {
			clause = &spec.Ensures[i]
		}
	}
	if clause == nil {
		return "unknown", "clause not found"
	}
	defer func() {
		if r := recover(); r != nil {
			res, why = "unknown", fmt.Sprintf("clause not evaluable on concrete results: %v", r)
		}
	}()
	fc := newFnCtx(eng, fn, spec)
	fr := fc.newFrame(fn, spec, 0)
	fr.top = true
	fc.topFrame = fr
	st := &State{pc: tTrue, cells: map[cellKey]Val{}, heaps: map[string]Term{}}
	for _, ax := range eng.axioms {
		if ax.Pkg != "" && ax.Pkg != spec.Pkg && ax.Pkg != "header" {
			continue
		}
		env := newSpecEnv(spec.Pkg)
		ev := &evaluator{fc: fc, st: st, old: st, env: env, clause: &Clause{File: "axiom " + ax.Name}}
		fc.define(ev.evalBool(ax.Expr))
	}
	for i, p := range fn.Params {
		pname := p.Name()
		if pname == "_" || pname == "" {
			pname = fmt.Sprintf("arg%d", i)
		}
		fr.env[p] = fc.havocNamed(st, "in_"+pname, p.Type())
	}
	fc.entry = st.clone()
	env := fc.topEnv(fr, spec)
	var rvals []Val
	var extra []string
	for i, rt := range plan.results {
		switch {
		case isErrorType(rt):
			if actual[i] == "nil" {
				rvals = append(rvals, T(SErr, "nilErr"))
			} else {
				e := fc.fresh("actualerr", SErr)
				extra = append(extra, "(not (= "+e.S+" nilErr))")
				rvals = append(rvals, e)
			}
		case isScalar(rt):
			if actual[i] == "true" || actual[i] == "false" {
				rvals = append(rvals, T(SBool, actual[i]))
			} else if strings.HasPrefix(actual[i], "-") {
				rvals = append(rvals, T(SInt, "(- "+actual[i][1:]+")"))
			} else if regexp.MustCompile(`^\d+$`).MatchString(actual[i]) {
				rvals = append(rvals, T(SInt, actual[i]))
			} else {
				return "unknown", "result not a scalar literal: " + actual[i]
			}
		default:
			return "unknown", "non-scalar result"
		}
	}
	switch len(rvals) {
	case 0:
	case 1:
		env.setResults(rvals[0])
	default:
		env.setResults(&TupleVal{Elems: rvals})
	}
	t := fc.evalClauseEnv(st, fc.entry, *clause, env)
	var q strings.Builder
	q.WriteString(smtPrelude)
	q.WriteString(fc.decls.dump())
	for _, a := range fc.assertions {
		if isQuantified(a) {
			continue // background axioms are not needed to evaluate a clause on concrete values
		}
		q.WriteString("(assert " + a + ")\n")
	}
	var labels []string
	for l := range plan.terms {
		labels = append(labels, l)
	}
	sort.Strings(labels)
	for _, l := range labels {
		term := plan.terms[l]
		ok := true
		for _, sym := range symRe.FindAllString(term, -1) {
			if !smtVocabulary[sym] && !map[string]bool{"ix": true, "len": true, "arr": true, "off": true, "cap": true, "mk": true, "slice": true, "htime": true}[sym] {
				if _, d := fc.decls.text[sym]; !d {
					ok = false
				}
			}
		}
		if ok {
			q.WriteString("(assert (= " + term + " " + vals[l] + "))\n")
		}
	}
	for _, e := range extra {
		q.WriteString("(assert " + e + ")\n")
	}
	// Two ground queries (an `unsat` answer stays valid when hypotheses are missing, so both are sound):
	//   pins /\ clause      unsat  =>  the clause is FALSE on the real results   (reproduced)
	//   pins /\ not clause  unsat  =>  the clause HOLDS on the real results      (not reproduced)
	run := func(goal string) string {
		f, err := os.CreateTemp("", "govc-replay-eval-*.smt2")
		if err != nil {
			return "error"
		}
		defer os.Remove(f.Name())
		f.WriteString(q.String() + "(assert " + goal + ")\n(check-sat)\n")
		f.Close()
		cctx, cancel := context.WithTimeout(context.Background(), 30*time.Second)
		defer cancel()
		outb, _ := exec.CommandContext(cctx, "z3-new", "-T:20", f.Name()).CombinedOutput()
		return strings.TrimSpace(strings.SplitN(string(outb), "\n", 2)[0])
	}
	if run(t.S) == "unsat" {
		return "false", "clause `" + clause.Src + "` is FALSE for the model's inputs and the results the real code returned (" + strings.Join(actual, ", ") + ")"
	}
	if run("(not "+t.S+")") == "unsat" {
		return "true", "clause holds for the results the real code returned (" + strings.Join(actual, ", ") + "): counterexample not confirmed"
	}
	return "unknown", "ground evaluation inconclusive for the results the real code returned (" + strings.Join(actual, ", ") + ")"
}
