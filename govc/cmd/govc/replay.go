package main

// tryReplay turns a solver model into a Go test against the real package (see replay templates).
// Returns verdict ("reproduced" | "not-reproduced" | "no-template" | ""), the test source and its output.
func tryReplay(eng *Engine, ob *Obligation, repo, outDir string) (string, string, string) {
	return "no-template", "", ""
}
