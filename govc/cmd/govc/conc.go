package main

import (
	"fmt"
	"go/token"
	"go/types"
	"sort"
	"strings"

	"golang.org/x/tools/go/ssa"
)

// chanKeyOf derives the contract key of a channel-typed SSA value.
func (fc *FnCtx) chanKeyOf(v ssa.Value) string {
	switch x := v.(type) {
	case *ssa.UnOp:
		switch a := x.X.(type) {
		case *ssa.FieldAddr:
			n, s := structOf(a.X.Type())
			if s != nil && n.Obj().Pkg() != nil {
				return shortPkg(n.Obj().Pkg().Path()) + "." + n.Obj().Name() + "." + s.Field(a.Field).Name()
			}
		case *ssa.Alloc:
			return funcDisplayName(a.Parent()) + "." + a.Comment
		case *ssa.FreeVar:
			return funcDisplayName(a.Parent().Parent()) + "." + a.Name()
		}
	case *ssa.Parameter:
		return funcDisplayName(x.Parent()) + "." + x.Name()
	case *ssa.MakeChan:
		return ""
	case *ssa.Call:
		// ctx.Done()
		if x.Common().IsInvoke() && x.Common().Method.Name() == "Done" {
			return "ctx.Done"
		}
	}
	return ""
}

func (fc *FnCtx) noteChanOrigin(fr *Frame, x *ssa.MakeChan, r Term) {}

func (fc *FnCtx) chanInvFor(v ssa.Value) *ChanInv {
	k := fc.chanKeyOf(v)
	if k == "" {
		return nil
	}
	return fc.eng.chans[k]
}

func (fc *FnCtx) chanSend(fr *Frame, st *State, chv ssa.Value, ch Term, msg Val, cond Term, pos token.Pos) {
	ci := fc.chanInvFor(chv)
	if ci == nil {
		return
	}
	elem := unalias(chv.Type()).Underlying().(*types.Chan).Elem()
	env := fc.frameEnv(fr, st)
	env.bind(ci.Var, msg, elem)
	t := fc.evalClauseEnv(st, fr.entry, ci.Inv, env)
	s2 := st
	if cond.S != "true" {
		s2 = st.clone()
		s2.pc = tAnd(st.pc, cond)
	}
	fc.obligeClause(s2, "chaninv", "send:"+shortKey(ci.Key), t, ci.Inv, pos)
	// ghost send counter
	cnt := cellKey{0, "sent:" + ci.Key}
	old, ok := st.cells[cnt].(Term)
	if !ok {
		old = intLit(0)
	}
	st.cells[cnt] = fc.nameTerm("sent", tIte(cond, tAdd(old, intLit(1)), old))
}

func shortKey(k string) string {
	if i := strings.LastIndex(k, "."); i >= 0 {
		return k[i+1:]
	}
	return k
}

// ctxDoneKey: per-context "observed done" flag (a context never becomes un-done).
func ctxDoneKey(ctx Term) cellKey { return cellKey{0, "ctxdone:" + ctx.S} }

// ctxOfDoneChan: for `<-ctx.Done()` returns the context term.
func (fc *FnCtx) ctxOfDoneChan(fr *Frame, st *State, chv ssa.Value) (Term, bool) {
	c, ok := chv.(*ssa.Call)
	if !ok || !c.Common().IsInvoke() || c.Common().Method.Name() != "Done" {
		return Term{}, false
	}
	t, ok := fc.value(fr, st, c.Common().Value).(Term)
	return t, ok
}

func (fc *FnCtx) chanRecv(fr *Frame, st *State, chv ssa.Value, ch Term, elem types.Type, cond Term) Val {
	if ctx, ok := fc.ctxOfDoneChan(fr, st, chv); ok {
		// receiving from Done() means the context is done from now on
		k := ctxDoneKey(ctx)
		old, has := st.cells[k].(Term)
		if !has {
			old = tFalse
		}
		st.cells[k] = fc.nameTerm("ctxdone", tOr(old, cond))
	}
	// ghost receive counter (recvd("Struct.field") in contracts): how often this function received from the channel
	if k := fc.recvKey(chv); k != "" {
		ck := cellKey{0, "recvd:" + k}
		old, ok := st.cells[ck].(Term)
		if !ok {
			old = intLit(0)
		}
		st.cells[ck] = fc.nameTerm("recvd", tIte(cond, tAdd(old, intLit(1)), old))
		// sawEmpty("Struct.field"): the last thing this function learnt about the channel is that it was
		// empty (a non-blocking select over it took its default branch); any successful receive resets it
		ek := cellKey{0, "sawempty:" + k}
		oldE, ok := st.cells[ek].(Term)
		if !ok {
			oldE = tFalse
		}
		st.cells[ek] = fc.nameTerm("sawempty", tAnd(tNot(cond), oldE))
	}
	v := fc.havocValue(st, "recv", elem)
	ci := fc.chanInvFor(chv)
	if ci != nil {
		env := fc.frameEnv(fr, st)
		env.bind(ci.Var, v, elem)
		t := fc.evalClauseEnv(st, fr.entry, ci.Inv, env)
		fc.assume(st, tImp(cond, t))
	}
	return v
}

func (fc *FnCtx) chanClose(fr *Frame, st *State, chv ssa.Value, ch Term, instr ssa.Instruction) {
	cnt := cellKey{0, "closed:" + fc.chanKeyOf(chv)}
	old, ok := st.cells[cnt].(Term)
	if !ok {
		old = intLit(0)
	}
	st.cells[cnt] = tAdd(old, intLit(1))
}

func (fc *FnCtx) execSelect(fr *Frame, st *State, x *ssa.Select) Val {
	n := len(x.States)
	idx := fc.fresh("selidx", SInt)
	lo := intLit(0)
	if !x.Blocking {
		lo = intLit(-1)
	}
	fc.assume(st, tAnd(tLe(lo, idx), tLt(idx, intLit(int64(n)))))
	res := &TupleVal{Elems: []Val{idx, fc.fresh("selok", SBool)}}
	for i, s := range x.States {
		cond := tEq(idx, intLit(int64(i)))
		ch := fc.termOrHavoc(fr, st, s.Chan, x)
		if s.Dir == types.SendOnly {
			fc.chanSend(fr, st, s.Chan, ch, fc.value(fr, st, s.Send), cond, x.Pos())
		} else {
			elem := unalias(s.Chan.Type()).Underlying().(*types.Chan).Elem()
			res.Elems = append(res.Elems, fc.chanRecv(fr, st, s.Chan, ch, elem, cond))
			if !x.Blocking {
				// the default branch of a non-blocking select is only taken when no receive case is ready
				if k := fc.recvKey(s.Chan); k != "" {
					ek := cellKey{0, "sawempty:" + k}
					oldE, ok := st.cells[ek].(Term)
					if !ok {
						oldE = tFalse
					}
					st.cells[ek] = fc.nameTerm("sawempty", tOr(tEq(idx, intLit(-1)), oldE))
				}
			}
		}
	}
	return res
}

// ---------------------------------------------------------------------------
// Locks

func lockKeyOf(v ssa.Value) (string, ssa.Value) {
	if fa, ok := v.(*ssa.FieldAddr); ok {
		n, s := structOf(fa.X.Type())
		if s != nil && n.Obj().Pkg() != nil {
			return shortPkg(n.Obj().Pkg().Path()) + "." + n.Obj().Name() + "." + s.Field(fa.Field).Name(), fa.X
		}
	}
	return "", nil
}

func (fc *FnCtx) lockAcquire(fr *Frame, st *State, recv ssa.Value, instr ssa.Instruction) {
	key, owner := lockKeyOf(recv)
	li := fc.eng.locks[key]
	if li == nil {
		return
	}
	ws := map[string]bool{}
	for _, p := range li.Protected {
		ws[fc.eng.resolveModifies(li.Pkg, p)] = true
	}
	fc.havocWrites(st, ws)
	env := fc.frameEnv(fr, st)
	env.bind(li.Self, fc.value(fr, st, owner), owner.Type())
	t := fc.evalClauseEnv(st, fr.entry, li.Inv, env)
	fc.assume(st, t)
}

func (fc *FnCtx) lockRelease(fr *Frame, st *State, recv ssa.Value, instr ssa.Instruction) {
	key, owner := lockKeyOf(recv)
	li := fc.eng.locks[key]
	if li == nil {
		return
	}
	env := fc.frameEnv(fr, st)
	env.bind(li.Self, fc.value(fr, st, owner), owner.Type())
	t := fc.evalClauseEnv(st, fr.entry, li.Inv, env)
	pos := token.NoPos
	if instr != nil {
		pos = instr.Pos()
	}
	fc.obligeClause(st, "lockinv", "unlock:"+shortKey(key), t, li.Inv, pos)
}

// ---------------------------------------------------------------------------
// Step invariants: asserted after every instruction that writes a location read by the invariant.

func (fc *FnCtx) checkStepInv(fr *Frame, st *State, instr ssa.Instruction) {
	if fc.spec == nil || len(fc.spec.StepInvs) == 0 || fc.topFrame == nil {
		return
	}
	ws := instrWrites(fc.eng, instr)
	if len(ws) == 0 {
		return
	}
	for i, si := range fc.spec.StepInvs {
		env := fc.frameEnv(fc.topFrame, st)
		ev := &evaluator{fc: fc, st: st, old: fc.topFrame.entry, env: env, reads: map[string]bool{}}
		t := ev.evalBool(si.Expr)
		hit := false
		var names []string
		for r := range ev.reads {
			names = append(names, r)
		}
		sort.Strings(names)
		for _, r := range names {
			if ws[r] > 0 {
				hit = true
			}
		}
		if !hit {
			continue
		}
		fc.obligeClause(st, "stepinv", clauseLabel(si, i), t, si, instr.Pos())
	}
	_ = fmt.Sprint
}

// recvKey names the ghost receive counter of a channel the way contracts write it ("Struct.field",
// "(*T).method.local"); "" for channels without a stable name and for ctx.Done().
func (fc *FnCtx) recvKey(chv ssa.Value) string {
	key := fc.chanKeyOf(chv)
	if key == "" || key == "ctx.Done" {
		return ""
	}
	if ci := fc.chanInvFor(chv); ci != nil {
		return ci.Key
	}
	if i := strings.Index(key, "."); i >= 0 && !strings.Contains(key, "(") {
		return key[i+1:] // drop the package prefix
	}
	return key
}

// isUserCallback: the called function value comes from a local variable, parameter or captured variable
// (not from a struct field set up by the repository itself).
func isUserCallback(v ssa.Value) bool {
	switch x := v.(type) {
	case *ssa.UnOp:
		_, ok := x.X.(*ssa.Alloc)
		return ok
	case *ssa.Parameter, *ssa.FreeVar:
		return true
	}
	return false
}
