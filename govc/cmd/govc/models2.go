package main

import (
	"fmt"
	"go/token"
	"go/types"

	"golang.org/x/tools/go/ssa"
)

// Library models added for the store's parallel deletion path.

func init() {
	models["runtime.GOMAXPROCS"] = func(fc *FnCtx, fr *Frame, st *State, instr ssa.Instruction, c *ssa.CallCommon, args []Val, rt types.Type) Val {
		n := fc.fresh("gomaxprocs", SInt)
		fc.assume(st, tAnd(tLe(intLit(1), n), tLe(n, intLit(1<<16))))
		fc.assumptions["runtime.GOMAXPROCS returns a value in [1, 65536]"] = true
		return n
	}
	models["slices.SortFunc"] = modelSlicesSortFunc
	// maps.Values(m) is only modelled as the argument of slices.Collect: the iterator is carried as the map itself
	models["maps.Values"] = func(fc *FnCtx, fr *Frame, st *State, instr ssa.Instruction, c *ssa.CallCommon, args []Val, rt types.Type) Val {
		if m, ok := args[0].(Term); ok {
			if _, isMap := unalias(c.Args[0].Type()).Underlying().(*types.Map); isMap {
				return &AnyVal{V: m, GT: c.Args[0].Type()}
			}
		}
		return havocRes(fc, st, "mapvalues", rt)
	}
	// slices.Collect(maps.Values(m)): a fresh slice holding exactly the values of m, one per key, in an
	// unspecified order (keyOf / idxOf are the two directions of the enumeration)
	models["slices.Collect"] = func(fc *FnCtx, fr *Frame, st *State, instr ssa.Instruction, c *ssa.CallCommon, args []Val, rt types.Type) Val {
		av, ok := args[0].(*AnyVal)
		var mt *types.Map
		if ok && av.GT != nil {
			mt, _ = unalias(av.GT).Underlying().(*types.Map)
		}
		m, mok := Term{}, false
		if ok {
			m, mok = av.V.(Term)
		}
		if mt == nil || !mok {
			fc.abstract(instr, "slices.Collect of an unmodelled iterator: result havoc'd")
			return havocRes(fc, st, "collect", rt)
		}
		hasN, valN, ks, vs := fc.mapHeaps(st, mt)
		arr := fc.allocRef(st)
		n := fc.fresh("collectlen", SInt)
		fc.assume(st, tAnd(tLe(intLit(0), n), tLe(n, bigLit(maxLenS))))
		fc.nfresh++
		keyOf := fmt.Sprintf("keyOf_%d", fc.nfresh)
		idxOf := fmt.Sprintf("idxOf_%d", fc.nfresh)
		fc.decls.fun(keyOf, []string{SInt}, ks)
		fc.decls.fun(idxOf, []string{ks}, SInt)
		ehn := elemHeapName(vs)
		eh := fc.heapRaw(st, ehn, arrSort(SInt, arrSort(SInt, vs)))
		row := fc.fresh("collected", arrSort(SInt, vs))
		fc.setHeap(st, ehn, tStore(eh, arr, row))
		has := tSelect(st.heaps[hasN], m)
		val := tSelect(st.heaps[valN], m)
		res := fc.nameTerm("collected", mkSlice(arr, intLit(0), n, n))
		off := slOff(res).S
		krange := rangeFact(T(ks, "("+keyOf+" ci)"), mt.Key()).S
		fc.assume(st, T(SBool, fmt.Sprintf("(forall ((ci Int)) (! (=> (and (<= 0 ci) (< ci %s)) (and "+krange+" (select %s (%s ci)) (= (select %s (ix %s ci)) (select %s (%s ci))) (= (%s (%s ci)) ci))) :pattern ((select %s (ix %s ci))) :pattern ((%s ci))))",
			n.S, has.S, keyOf, row.S, off, val.S, keyOf, idxOf, keyOf, row.S, off, keyOf)))
		fc.assume(st, T(SBool, fmt.Sprintf("(forall ((ck %s)) (! (=> (select %s ck) (and (<= 0 (%s ck)) (< (%s ck) %s) (= (%s (%s ck)) ck))) :pattern ((select %s ck)) :pattern ((%s ck))))",
			ks, has.S, idxOf, idxOf, n.S, keyOf, idxOf, has.S, idxOf)))
		fc.usedModels["slices.Collect(maps.Values(m)): fresh slice enumerating exactly the entries of m"] = true
		return res
	}
	waitPrev := models["(*sync.WaitGroup).Wait"]
	models["(*sync.WaitGroup).Wait"] = func(fc *FnCtx, fr *Frame, st *State, instr ssa.Instruction, c *ssa.CallCommon, args []Val, rt types.Type) Val {
		// goroutines started without a contract may have written anything in their write set by now
		for _, ws := range fc.spawned {
			fc.havocWrites(st, ws)
		}
		if waitPrev != nil {
			return waitPrev(fc, fr, st, instr, c, args, rt)
		}
		return nil
	}
}

// keyCmp describes a recognised comparator over one integer field of a struct element.
type keyCmp struct {
	field int
	// kind: "wrapsub" = int(a.f - b.f) (unsigned difference reinterpreted as signed)
	//       "asc"     = cmp.Compare(a.f, b.f)
	//       "desc"    = cmp.Compare(b.f, a.f)
	kind string
}

// fieldOfParam: v is a load of field k of (a copy of) parameter p of fn.
func fieldOfParam(fn *ssa.Function, v ssa.Value) (param int, field int, ok bool) {
	u, isU := v.(*ssa.UnOp)
	if !isU || u.Op != token.MUL {
		if f, isF := v.(*ssa.Field); isF {
			if p, isP := f.X.(*ssa.Parameter); isP {
				for i, q := range fn.Params {
					if q == p {
						return i, f.Field, true
					}
				}
			}
		}
		return 0, 0, false
	}
	fa, isFA := u.X.(*ssa.FieldAddr)
	if !isFA {
		return 0, 0, false
	}
	al, isAl := fa.X.(*ssa.Alloc)
	if !isAl || al.Referrers() == nil {
		return 0, 0, false
	}
	// the alloc is the spill slot of a parameter: exactly one store, of that parameter
	var src *ssa.Parameter
	for _, r := range *al.Referrers() {
		if s, isS := r.(*ssa.Store); isS && s.Addr == al {
			p, isP := s.Val.(*ssa.Parameter)
			if !isP || src != nil {
				return 0, 0, false
			}
			src = p
		}
	}
	for i, q := range fn.Params {
		if q == src {
			return i, fa.Field, true
		}
	}
	return 0, 0, false
}

// recogniseKeyCmp matches comparators of the shapes listed in keyCmp.
func recogniseKeyCmp(fn *ssa.Function) (keyCmp, bool) {
	if len(fn.Params) != 2 {
		return keyCmp{}, false
	}
	var ret *ssa.Return
	for _, b := range fn.Blocks {
		for _, in := range b.Instrs {
			if r, ok := in.(*ssa.Return); ok {
				if ret != nil {
					return keyCmp{}, false
				}
				ret = r
			}
		}
	}
	if ret == nil || len(ret.Results) != 1 {
		return keyCmp{}, false
	}
	rv := ret.Results[0]
	// NaiveForm routes results through a local: *t = v; ...; t' = *t; return t'
	if u, ok := rv.(*ssa.UnOp); ok && u.Op == token.MUL {
		if al, ok := u.X.(*ssa.Alloc); ok && al.Referrers() != nil {
			var stored ssa.Value
			n := 0
			for _, r := range *al.Referrers() {
				if s, isS := r.(*ssa.Store); isS && s.Addr == al {
					stored = s.Val
					n++
				}
			}
			if n == 1 {
				rv = stored
			}
		}
	}
	switch x := rv.(type) {
	case *ssa.Convert:
		bo, ok := x.X.(*ssa.BinOp)
		if !ok || bo.Op != token.SUB {
			return keyCmp{}, false
		}
		if b, isB := unalias(bo.Type()).Underlying().(*types.Basic); !isB || b.Kind() != types.Uint64 {
			return keyCmp{}, false
		}
		if b, isB := unalias(x.Type()).Underlying().(*types.Basic); !isB || (b.Kind() != types.Int && b.Kind() != types.Int64) {
			return keyCmp{}, false
		}
		p0, f0, ok0 := fieldOfParam(fn, bo.X)
		p1, f1, ok1 := fieldOfParam(fn, bo.Y)
		if ok0 && ok1 && p0 == 0 && p1 == 1 && f0 == f1 {
			return keyCmp{field: f0, kind: "wrapsub"}, true
		}
	case *ssa.Call:
		callee := x.Call.StaticCallee()
		if callee == nil || calleeModelName(callee) != "cmp.Compare" || len(x.Call.Args) != 2 {
			return keyCmp{}, false
		}
		p0, f0, ok0 := fieldOfParam(fn, x.Call.Args[0])
		p1, f1, ok1 := fieldOfParam(fn, x.Call.Args[1])
		if !ok0 || !ok1 || f0 != f1 || p0 == p1 {
			return keyCmp{}, false
		}
		if p0 == 0 {
			return keyCmp{field: f0, kind: "asc"}, true
		}
		return keyCmp{field: f0, kind: "desc"}, true
	}
	return keyCmp{}, false
}

// slices.SortFunc(s, cmp) for a slice of struct values. Model: afterwards the slice holds arbitrary
// (fresh, pairwise distinct) value objects -- which values they are is deliberately left open -- ordered by
// the comparator, i.e. cmp(s[i], s[j]) <= 0 for all i < j. The ordering is only stated for comparators of a
// recognised shape over one integer key field:
//   int(a.f - b.f) on uint64   ->  a.f == b.f, or the wrapped difference has its top bit set
//   cmp.Compare(a.f, b.f)      ->  a.f <= b.f
//   cmp.Compare(b.f, a.f)      ->  a.f >= b.f
// For any other comparator nothing is known about the order (a proof that needs it then fails).
// ASSUMPTION (listed): the comparator is a consistent ordering, as slices.SortFunc requires.
func modelSlicesSortFunc(fc *FnCtx, fr *Frame, st *State, instr ssa.Instruction, c *ssa.CallCommon, args []Val, rt types.Type) Val {
	stt, ok := unalias(c.Args[0].Type()).Underlying().(*types.Slice)
	sl, sok := args[0].(Term)
	cv, cok := args[1].(*ClosureVal)
	if !ok || !sok || !cok || cv.Fn == nil || sl.Sort != SSlice {
		fc.abstract(instr, "slices.SortFunc with unmodelled arguments: contents havoc'd, no ordering known")
		fc.havocPointees(fr, st, c, args)
		return nil
	}
	n, isStruct := isStructVal(stt.Elem())
	if !isStruct {
		fc.abstract(instr, "slices.SortFunc on non-struct elements: contents havoc'd, no ordering known")
		fc.havocPointees(fr, st, c, args)
		return nil
	}
	base := fc.allocTop(st)
	top := fc.fresh("allocTop", SInt)
	fc.assume(st, tEq(top, tAdd(tAdd(tAdd(base, slOff(sl)), slLen(sl)), intLit(1))))
	st.cells[keyAlloc] = top
	row := fc.fresh("sortedslots", arrSort(SInt, SInt))
	fc.assume(st, T(SBool, fmt.Sprintf("(forall ((k Int)) (! (= (select %s k) (+ %s 1 k)) :pattern ((select %s k))))", row.S, base.S, row.S)))
	ehn := elemHeapName(SInt)
	eh0 := fc.heapRaw(st, ehn, arrSort(SInt, arrSort(SInt, SInt)))
	fc.setHeap(st, ehn, tStore(eh0, slArr(sl), row))

	kc, rec := recogniseKeyCmp(cv.Fn)
	if !rec {
		fc.abstract(instr, "slices.SortFunc comparator "+funcDisplayName(cv.Fn)+" not of a recognised shape: no ordering known")
		return nil
	}
	sn := n.Underlying().(*types.Struct)
	f := sn.Field(kc.field)
	if sortOf(f.Type()) != SInt {
		fc.abstract(instr, "slices.SortFunc key field is not an integer: no ordering known")
		return nil
	}
	fh := fc.heap(st, structHeapName(n, f.Name()), SInt)
	ki := fmt.Sprintf("(select %s (select %s (ix %s sqi)))", fh.S, row.S, slOff(sl).S)
	kj := fmt.Sprintf("(select %s (select %s (ix %s sqj)))", fh.S, row.S, slOff(sl).S)
	var ord string
	switch kc.kind {
	case "asc":
		ord = fmt.Sprintf("(<= %s %s)", ki, kj)
	case "desc":
		ord = fmt.Sprintf("(>= %s %s)", ki, kj)
	default: // wrapsub
		ord = fmt.Sprintf("(or (= %s %s) (>= (ite (< %s %s) (+ (- %s %s) 18446744073709551616) (- %s %s)) 9223372036854775808))", ki, kj, ki, kj, ki, kj, ki, kj)
	}
	fact := fmt.Sprintf("(forall ((sqi Int) (sqj Int)) (! (=> (and (<= 0 sqi) (< sqi sqj) (< sqj %s)) %s) :pattern ((select %s (ix %s sqi)) (select %s (ix %s sqj)))))",
		slLen(sl).S, ord, row.S, slOff(sl).S, row.S, slOff(sl).S)
	fc.assume(st, T(SBool, fact))
	fc.usedModels["slices.SortFunc (fresh distinct slots ordered by the recognised comparator "+funcDisplayName(cv.Fn)+": "+kc.kind+" on field "+f.Name()+"; comparator assumed to be a consistent ordering)"] = true
	return nil
}
