package main

import (
	"fmt"
	"go/types"
	"sort"
	"strings"

	"golang.org/x/tools/go/ssa"
)

// verifyFunction generates all obligations for one function under contract.
func (e *Engine) verifyFunction(name string, spec *FuncSpec) (fc *FnCtx, err error) {
	fn := e.funcs[name]
	if fn == nil {
		return nil, fmt.Errorf("contract target %s not found in code", name)
	}
	fc = newFnCtx(e, fn, spec)
	defer func() {
		if r := recover(); r != nil {
			if be, ok := r.(bindError); ok {
				err = fmt.Errorf("binding failure in contract of %s: %s", name, be.msg)
				return
			}
			panic(r)
		}
	}()
	fr := fc.newFrame(fn, spec, 0)
	fr.top = true
	fc.topFrame = fr
	st := &State{pc: tTrue, cells: map[cellKey]Val{}, heaps: map[string]Term{}}
	// axioms
	for _, ax := range e.axioms {
		axPkg := ax.Pkg
		if axPkg == "" {
			axPkg = spec.Pkg
		}
		if axPkg != spec.Pkg && axPkg != "header" {
			// axioms of another package's library model (e.g. the store's datastore keys) do not concern
			// this function: none of its contracts can mention that vocabulary
			if _, loaded := fc.eng.pkgs[axPkg]; loaded {
				continue
			}
		}
		env := newSpecEnv(axPkg)
		ev := &evaluator{fc: fc, st: st, old: st, env: env, clause: &Clause{File: "axiom " + ax.Name}}
		fc.define(ev.evalBool(ax.Expr))
		fc.assumptions["axiom "+ax.Name+": "+ax.Src] = true
	}
	// parameters
	for i, p := range fn.Params {
		pname := p.Name()
		if pname == "_" || pname == "" {
			pname = fmt.Sprintf("arg%d", i) // blank parameters still need distinct symbols
		}
		v := fc.havocNamed(st, "in_"+pname, p.Type())
		fr.env[p] = v
	}
	for _, fv := range fn.FreeVars {
		_ = fv
	}
	// ghost call results
	for _, g := range spec.Ghosts {
		srt := SErr
		if g.Type != "" {
			srt = specSort(g.Type)
		}
		t := fc.decls.constant("ghost_"+sanitize(g.Name), srt)
		fr.ghostRes[ghostKey(g)] = t
		fr.ghostIdx[ghostKey(g)] = g.ResIdx
		fc.ghostNames[g.Name] = t
		fc.ghostKeys[g.Name] = ghostKey(g)
	}
	entry := st.clone()
	fc.entry = entry
	// requires
	topEnv := fc.topEnv(fr, spec)
	for _, g := range spec.Ghosts {
		topEnv.bind(g.Name, fr.ghostRes[ghostKey(g)], nil)
	}
	fc.reqStart = len(fc.assertions)
	for _, rq := range spec.Requires {
		t := fc.evalClauseEnv(st, st, rq, topEnv)
		fc.assume(st, t)
	}
	fc.reqEnd = len(fc.assertions)
	entry = st.clone()
	fc.entry = entry
	nReq := len(fc.assertions)
	out, res := fc.execBody(fr, st)
	fr.entry = entry
	// a before-clause that matched no call site checks nothing: that is a binding failure, not a pass
	for i, b := range spec.Befores {
		if !fc.beforeHits[i] {
			panic(bindError{msg: fmt.Sprintf("before-clause %q names callee %q, which the function never calls", clauseLabel(b.Clause, i), b.Callee)})
		}
	}
	// likewise a ghost bound to a call the function never makes: every clause over it would be vacuous
	for _, g := range spec.Ghosts {
		if !fc.ghostHits[ghostKey(g)] {
			var seen []string
			for k, n := range fr.invokeN {
				seen = append(seen, fmt.Sprintf("%s x%d", strings.TrimPrefix(k, "call:"), n))
			}
			sort.Strings(seen)
			// reported as a failed obligation of its own (not as a binding failure), so that the remaining
			// obligations of the function are still generated and name what the missing call breaks
			gs := &State{pc: tTrue, cells: map[cellKey]Val{}, heaps: map[string]Term{}}
			fc.oblige(gs, "ghost", g.Name+":bound", tFalse, fn.Pos(), nil,
				fmt.Sprintf("ghost %q is bound to %s %s #%d, which the function never reaches (calls seen: %s)", g.Name, g.Kind, g.Method, g.Ord, strings.Join(seen, ", ")))
		}
	}
	// escaped panics
	if len(fr.panics) > 0 && !spec.MayPanic {
		var pcs []Term
		var whys []string
		for _, p := range fr.panics {
			pcs = append(pcs, p.pc)
			whys = append(whys, p.why)
		}
		ps := &State{pc: tTrue, cells: map[cellKey]Val{}, heaps: map[string]Term{}}
		fc.oblige(ps, "nopanic", "", tNot(tOr(pcs...)), fn.Pos(), nil, "no panic escapes the function; possible origins: "+strings.Join(whys, "; "))
	}
	if out != nil {
		var rv Val
		switch len(res) {
		case 0:
		case 1:
			rv = res[0]
		default:
			rv = &TupleVal{Elems: res}
		}
		topEnv.setResults(rv)
		fc.applyEffects(out, entry, spec, topEnv)
		for i, en := range spec.Ensures {
			t := fc.evalClauseEnv(out, entry, en, topEnv)
			fc.obligeClause(out, "ensures", clauseLabel(en, i), t, en, fn.Pos())
		}
		// frame: heaps written but not declared in modifies must be unchanged on pre-existing references
		declared := map[string]bool{}
		for _, m := range spec.Modifies {
			declared[e.resolveModifies(spec.Pkg, m)] = true
		}
		var ws []string
		for h := range fc.written {
			if !declared[h] {
				ws = append(ws, h)
			}
		}
		sort.Strings(ws)
		oldTop := fc.allocTop(entry)
		var frameGoals []Term
		for _, h := range ws {
			cur, ok := out.heaps[h]
			if !ok {
				continue
			}
			init := fc.decls.constant(h+"_0", cur.Sort)
			if cur.S == init.S {
				continue
			}
			if idxSortOfArray(cur.Sort) != SInt {
				continue
			}
			frameGoals = append(frameGoals, T(SBool, fmt.Sprintf("(forall ((r Int)) (=> (and (<= 0 r) (<= r %s)) (= (select %s r) (select %s r))))", oldTop.S, cur.S, init.S)))
		}
		// ghost variables not declared in modifies keep their value
		var gnames []string
		for g := range e.ghosts {
			gnames = append(gnames, g)
		}
		sort.Strings(gnames)
		for _, g := range gnames {
			if declared["ghost:"+g] {
				continue
			}
			cur, ok := out.cells[cellKey{0, g}].(Term)
			if !ok {
				continue
			}
			init := fc.decls.constant("ghost_"+sanitize(g)+"_0", specSort(e.ghosts[g].Type))
			if cur.S != init.S {
				frameGoals = append(frameGoals, tEq(cur, init))
				ws = append(ws, "ghost:"+g)
			}
		}
		if len(frameGoals) > 0 {
			ob := fc.oblige(out, "frame", "modifies", tAnd(frameGoals...), fn.Pos(), nil, "only declared locations change on pre-existing objects: "+strings.Join(ws, ","))
			_ = ob
		}
		// cover: exit reachable
		cov := fc.oblige(out, "cover", "exit", tFalse, fn.Pos(), nil, "function exit is reachable under the contract assumptions")
		cov.Cover = true
	} else if len(spec.Ensures) > 0 {
		ps := &State{pc: tTrue, cells: map[cellKey]Val{}, heaps: map[string]Term{}}
		fc.oblige(ps, "cover", "exit", tFalse, fn.Pos(), nil, "function has no reachable normal exit")
	}
	// cover for preconditions
	if len(spec.Requires) > 0 {
		ps := &State{pc: tTrue, cells: map[cellKey]Val{}, heaps: map[string]Term{}}
		cov := fc.oblige(ps, "cover", "requires", tFalse, fn.Pos(), nil, "preconditions are satisfiable")
		cov.Cover = true
		cov.NAssert = nReq
	}
	// per-return covers
	for i, r := range fr.rets {
		dead := false
		for _, u := range spec.Unreachable {
			if u == fmt.Sprintf("return%d", i) {
				dead = true
			}
		}
		if dead {
			continue // declared dead under the contract assumptions (defensive code)
		}
		cov := fc.oblige(r.st, "cover", fmt.Sprintf("return%d", i), tFalse, fn.Pos(), nil, "return site reachable")
		cov.Cover = true
	}
	return fc, nil
}

func ghostKey(g GhostBind) string {
	if g.Kind == "call" {
		return fmt.Sprintf("call:%s#%d/%d", g.Method, g.Ord, g.ResIdx)
	}
	return fmt.Sprintf("%s#%d", g.Method, g.Ord)
}

// havocNamed creates an input symbol with a stable readable name (for model extraction).
func (fc *FnCtx) havocNamed(st *State, name string, t types.Type) Val {
	t = unalias(t)
	if _, ok := t.Underlying().(*types.Signature); ok {
		// a function value is modelled by its identity alone (0 = nil): it can be stored, loaded and
		// compared with nil or with another value of the same origin; calling it goes through a field /
		// variable contract or havoc, exactly as for an unknown function value
		v := fc.decls.constant(sanitize(name), SInt)
		fc.define(tGe(v, intLit(0)))
		return v
	}
	v := fc.decls.constant(sanitize(name), sortOf(t))
	fc.inputSyms = append(fc.inputSyms, v.S)
	fc.define(fc.typeFact(st, v, t))
	return v
}

// topEnv: contract parameter names bound to the entry values of the parameters.
func (fc *FnCtx) topEnv(fr *Frame, spec *FuncSpec) *specEnv {
	env := newSpecEnv(spec.Pkg)
	fn := fr.fn
	names := spec.Params
	for i, p := range fn.Params {
		n := p.Name()
		if i < len(names) {
			n = names[i]
		}
		env.bind(n, fr.env[p], p.Type())
		env.bind(fmt.Sprintf("$%d", i), fr.env[p], p.Type())
	}
	if len(names) > len(fn.Params) {
		panic(bindError{fmt.Sprintf("%s:%d: contract lists %d parameters, function %s has %d", spec.File, spec.Line, len(names), fc.name, len(fn.Params))})
	}
	sig := fn.Signature
	for i := 0; i < sig.Results().Len(); i++ {
		env.results = append(env.results, SV{nil, sig.Results().At(i).Type()})
		env.resNames = append(env.resNames, sig.Results().At(i).Name())
	}
	// closures: free variables by name
	for _, fv := range fn.FreeVars {
		fvv := fv
		_ = fvv
	}
	env.fr = frForFreeVars(fr)
	return env
}

func frForFreeVars(fr *Frame) *Frame {
	if len(fr.fn.FreeVars) > 0 {
		return fr
	}
	return nil
}

var _ = ssa.NaiveForm
