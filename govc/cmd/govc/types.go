package main

import (
	"fmt"
	"go/types"
	"strings"
)

const (
	max64s  = "9223372036854775807"
	min64s  = "-9223372036854775808"
	two64s  = "18446744073709551616"
	two63s  = "9223372036854775808"
	maxLenS = "140737488355328" // 2^47, upper bound on slice lengths
)

func unalias(t types.Type) types.Type { return types.Unalias(t) }

func isTypeParam(t types.Type) bool {
	_, ok := unalias(t).(*types.TypeParam)
	return ok
}

func namedPath(t types.Type) string {
	if n, ok := unalias(t).(*types.Named); ok {
		if n.Obj().Pkg() != nil {
			return n.Obj().Pkg().Path() + "." + n.Obj().Name()
		}
		return n.Obj().Name()
	}
	return ""
}

func isByteSlice(t types.Type) bool {
	if s, ok := unalias(t).Underlying().(*types.Slice); ok {
		if b, ok := unalias(s.Elem()).Underlying().(*types.Basic); ok {
			return b.Kind() == types.Uint8
		}
	}
	return false
}

func isStructPtr(t types.Type) (*types.Named, bool) {
	if p, ok := unalias(t).Underlying().(*types.Pointer); ok {
		if n, ok := unalias(p.Elem()).(*types.Named); ok {
			if _, ok := n.Underlying().(*types.Struct); ok {
				return n, true
			}
		}
	}
	return nil, false
}

const dsKeyPath = "github.com/ipfs/go-datastore.Key"

// isOpaqueValueStruct: struct types modelled as opaque immutable values of their own sort.
func isOpaqueValueStruct(t types.Type) bool {
	switch namedPath(t) {
	case "time.Time", dsKeyPath:
		return true
	}
	return false
}

func isStructVal(t types.Type) (*types.Named, bool) {
	if isOpaqueValueStruct(t) {
		return nil, false
	}
	if n, ok := unalias(t).(*types.Named); ok {
		if _, ok := n.Underlying().(*types.Struct); ok {
			return n, true
		}
	}
	return nil, false
}

// sortOf maps a Go type to the SMT sort used for values of that type.
func sortOf(t types.Type) string {
	t = unalias(t)
	switch namedPath(t) {
	case "time.Time", "time.Duration":
		return SInt
	case dsKeyPath:
		return SKey
	}
	if isErrorType(t) {
		return SErr
	}
	if isByteSlice(t) {
		return SBytes
	}
	switch u := t.Underlying().(type) {
	case *types.Basic:
		switch {
		case u.Info()&types.IsBoolean != 0:
			return SBool
		case u.Info()&types.IsString != 0:
			return SStr
		case u.Info()&types.IsInteger != 0:
			return SInt
		case u.Kind() == types.UntypedNil:
			return SInt
		}
		return SInt // floats, complex, unsafe pointer: opaque
	case *types.Slice:
		return SSlice
	case *types.Interface:
		if _, ok := t.(*types.TypeParam); ok {
			return SHdr
		}
		return SInt
	}
	return SInt
}

type intRange struct {
	lo, hi string
	signed bool
	bits   int
}

func intRangeOf(t types.Type) (intRange, bool) {
	t = unalias(t)
	if namedPath(t) == "time.Time" {
		return intRange{}, false
	}
	b, ok := t.Underlying().(*types.Basic)
	if !ok || b.Info()&types.IsInteger == 0 {
		return intRange{}, false
	}
	switch b.Kind() {
	case types.Int, types.Int64, types.UntypedInt:
		return intRange{min64s, max64s, true, 64}, true
	case types.Int32, types.UntypedRune:
		return intRange{"-2147483648", "2147483647", true, 32}, true
	case types.Int16:
		return intRange{"-32768", "32767", true, 16}, true
	case types.Int8:
		return intRange{"-128", "127", true, 8}, true
	case types.Uint, types.Uint64, types.Uintptr:
		return intRange{"0", "18446744073709551615", false, 64}, true
	case types.Uint32:
		return intRange{"0", "4294967295", false, 32}, true
	case types.Uint16:
		return intRange{"0", "65535", false, 16}, true
	case types.Uint8:
		return intRange{"0", "255", false, 8}, true
	}
	return intRange{}, false
}

func pow2(bits int) string {
	switch bits {
	case 8:
		return "256"
	case 16:
		return "65536"
	case 32:
		return "4294967296"
	case 64:
		return two64s
	}
	panic("pow2")
}

// rangeFact returns the typing fact for a term of Go type t (true if none).
func rangeFact(v Term, t types.Type) Term {
	if v.Sort == SInt {
		if r, ok := intRangeOf(t); ok {
			return tAnd(tLe(bigLit(r.lo), v), tLe(v, bigLit(r.hi)))
		}
	}
	if v.Sort == SSlice {
		return tAnd(tLe(intLit(0), slLen(v)), tLe(slLen(v), slCap(v)), tLe(slCap(v), bigLit(maxLenS)), tLe(intLit(0), slOff(v)), tLe(slOff(v), bigLit(maxLenS)), tLe(intLit(0), slArr(v)))
	}
	return tTrue
}

// wrapTo normalises a mathematical integer into the machine range of type t.
// The input must be within one modulus of the range (true for + and - of in-range values).
func wrapOnce(v Term, t types.Type) Term {
	r, ok := intRangeOf(t)
	if !ok {
		return v
	}
	m := bigLit(pow2(r.bits))
	return tIte(tGt(v, bigLit(r.hi)), tSub(v, m), tIte(tLt(v, bigLit(r.lo)), tAdd(v, m), v))
}

// wrapMod normalises an arbitrary mathematical integer into the range of t.
func wrapMod(v Term, t types.Type) Term {
	r, ok := intRangeOf(t)
	if !ok {
		return v
	}
	m := bigLit(pow2(r.bits))
	u := app(SInt, "mod", v, m)
	if !r.signed {
		return u
	}
	return tIte(tGt(u, bigLit(r.hi)), tSub(u, m), u)
}

// structHeapName gives the heap (field array) name for field f of named struct n.
func structHeapName(n *types.Named, field string) string {
	pkg := ""
	if n.Obj().Pkg() != nil {
		pkg = shortPkg(n.Obj().Pkg().Path())
	}
	return "F_" + sanitize(pkg) + "_" + sanitize(n.Obj().Name()) + "_" + sanitize(field)
}

func structOf(t types.Type) (*types.Named, *types.Struct) {
	t = unalias(t)
	if p, ok := t.Underlying().(*types.Pointer); ok {
		t = unalias(p.Elem())
	}
	n, ok := t.(*types.Named)
	if !ok {
		return nil, nil
	}
	s, ok := n.Underlying().(*types.Struct)
	if !ok {
		return nil, nil
	}
	return n, s
}

func elemHeapName(sort string) string {
	return "EH_" + sanitize(strings.NewReplacer("(", "", ")", "", " ", "_").Replace(sort))
}

func mapHeapNames(m *types.Map) (has, val string) {
	k := sortOf(m.Key())
	v := sortOf(m.Elem())
	base := "MH_" + sanitize(k) + "_" + sanitize(strings.NewReplacer("(", "", ")", "", " ", "_").Replace(v))
	return base + "_has", base + "_val"
}

func boxHeapName(sort string) string {
	return "BOX_" + sanitize(strings.NewReplacer("(", "", ")", "", " ", "_").Replace(sort))
}

func describeType(t types.Type) string {
	return types.TypeString(t, func(p *types.Package) string { return shortPkg(p.Path()) })
}

func mustf(ok bool, f string, a ...any) {
	if !ok {
		panic(fmt.Sprintf(f, a...))
	}
}
