package main

import (
	"fmt"
	"sort"
	"strings"
)

// Sort names used in the SMT encoding.
const (
	SInt   = "Int"
	SBool  = "Bool"
	SStr   = "Str"
	SErr   = "Err"
	SHdr   = "Hdr"
	SBytes = "Bytes"
	SSlice = "Slice"
	SKey   = "Key" // datastore.Key values
)

// Term is an SMT-LIB term together with its sort.
type Term struct {
	S    string
	Sort string
}

func (t Term) String() string { return t.S }

func T(sort, s string) Term { return Term{S: s, Sort: sort} }

func app(sort, f string, args ...Term) Term {
	var b strings.Builder
	b.WriteString("(")
	b.WriteString(f)
	for _, a := range args {
		b.WriteString(" ")
		b.WriteString(a.S)
	}
	b.WriteString(")")
	return Term{S: b.String(), Sort: sort}
}

var (
	tTrue  = T(SBool, "true")
	tFalse = T(SBool, "false")
)

func intLit(v int64) Term {
	if v < 0 {
		return T(SInt, fmt.Sprintf("(- %d)", -v))
	}
	return T(SInt, fmt.Sprintf("%d", v))
}

func bigLit(s string) Term {
	if strings.HasPrefix(s, "-") {
		return T(SInt, "(- "+s[1:]+")")
	}
	return T(SInt, s)
}

func tNot(a Term) Term {
	switch a.S {
	case "true":
		return tFalse
	case "false":
		return tTrue
	}
	if strings.HasPrefix(a.S, "(not ") {
		return T(SBool, a.S[5:len(a.S)-1])
	}
	return app(SBool, "not", a)
}

func tAnd(as ...Term) Term {
	var xs []Term
	for _, a := range as {
		if a.S == "true" {
			continue
		}
		if a.S == "false" {
			return tFalse
		}
		xs = append(xs, a)
	}
	switch len(xs) {
	case 0:
		return tTrue
	case 1:
		return xs[0]
	}
	return app(SBool, "and", xs...)
}

func tOr(as ...Term) Term {
	var xs []Term
	for _, a := range as {
		if a.S == "false" {
			continue
		}
		if a.S == "true" {
			return tTrue
		}
		xs = append(xs, a)
	}
	switch len(xs) {
	case 0:
		return tFalse
	case 1:
		return xs[0]
	}
	return app(SBool, "or", xs...)
}

func tImp(a, b Term) Term {
	if a.S == "true" {
		return b
	}
	if a.S == "false" || b.S == "true" {
		return tTrue
	}
	return app(SBool, "=>", a, b)
}

func tEq(a, b Term) Term {
	if a.S == b.S {
		return tTrue
	}
	return app(SBool, "=", a, b)
}

func tIte(c, a, b Term) Term {
	if c.S == "true" {
		return a
	}
	if c.S == "false" {
		return b
	}
	if a.S == b.S {
		return a
	}
	return app(a.Sort, "ite", c, a, b)
}

func tAdd(a, b Term) Term { return app(SInt, "+", a, b) }
func tSub(a, b Term) Term { return app(SInt, "-", a, b) }
func tLt(a, b Term) Term  { return app(SBool, "<", a, b) }
func tLe(a, b Term) Term  { return app(SBool, "<=", a, b) }
func tGe(a, b Term) Term  { return app(SBool, ">=", a, b) }
func tGt(a, b Term) Term  { return app(SBool, ">", a, b) }

func arrSort(idx, elem string) string { return "(Array " + idx + " " + elem + ")" }

func tSelect(arr, idx Term) Term {
	// (Array I E) -> E
	es := elemSortOfArray(arr.Sort)
	// read-over-write simplification when the two indices are syntactically equal, or are the same base
	// plus different constant offsets (freshly allocated objects allocTop+1, allocTop+2, ...): keeps the
	// copies of struct values out of the queries
	cur := arr
	for depth := 0; depth < 64; depth++ {
		parts, ok := splitApp(cur.S, "store")
		if !ok || len(parts) != 3 {
			break
		}
		if parts[1] == idx.S {
			return T(es, parts[2])
		}
		if !distinctOffsets(parts[1], idx.S) {
			break
		}
		cur = T(arr.Sort, parts[0])
	}
	return app(es, "select", cur, idx)
}

// splitApp splits "(op a b c)" into its top-level arguments.
func splitApp(s, op string) ([]string, bool) {
	pre := "(" + op + " "
	if !strings.HasPrefix(s, pre) || !strings.HasSuffix(s, ")") {
		return nil, false
	}
	body := s[len(pre) : len(s)-1]
	var out []string
	depth, start := 0, 0
	for i := 0; i < len(body); i++ {
		switch body[i] {
		case '(':
			depth++
		case ')':
			depth--
			if depth < 0 {
				return nil, false
			}
		case ' ':
			if depth == 0 {
				if i > start {
					out = append(out, body[start:i])
				}
				start = i + 1
			}
		}
	}
	if start < len(body) {
		out = append(out, body[start:])
	}
	return out, depth == 0
}

// offsetForm writes a term as base + constant ("(+ (+ x 1) 1)" -> x, 2).
func offsetForm(s string) (string, int64) {
	var off int64
	for {
		parts, ok := splitApp(s, "+")
		if !ok || len(parts) != 2 {
			return s, off
		}
		var c int64
		if _, err := fmt.Sscanf(parts[1], "%d", &c); err != nil || fmt.Sprintf("%d", c) != parts[1] {
			return s, off
		}
		off += c
		s = parts[0]
	}
}

func distinctOffsets(a, b string) bool {
	ba, oa := offsetForm(a)
	bb, ob := offsetForm(b)
	return ba == bb && oa != ob
}

func tStore(arr, idx, v Term) Term { return app(arr.Sort, "store", arr, idx, v) }

// elemSortOfArray parses "(Array I E)" and returns E.
func elemSortOfArray(s string) string {
	if !strings.HasPrefix(s, "(Array ") {
		panic("not an array sort: " + s)
	}
	body := s[len("(Array ") : len(s)-1]
	// index sort is first balanced token
	i := skipSexp(body, 0)
	return strings.TrimSpace(body[i:])
}

func idxSortOfArray(s string) string {
	body := s[len("(Array ") : len(s)-1]
	i := skipSexp(body, 0)
	return strings.TrimSpace(body[:i])
}

func skipSexp(s string, i int) int {
	for i < len(s) && s[i] == ' ' {
		i++
	}
	if i < len(s) && s[i] == '(' {
		d := 0
		for ; i < len(s); i++ {
			if s[i] == '(' {
				d++
			} else if s[i] == ')' {
				d--
				if d == 0 {
					return i + 1
				}
			}
		}
		return i
	}
	for i < len(s) && s[i] != ' ' {
		i++
	}
	return i
}

// Slice helpers (datatype Slice = mk-slice(arr, off, len, cap)).
func slArr(s Term) Term { return app(SInt, "s-arr", s) }
func slOff(s Term) Term { return app(SInt, "s-off", s) }
func slLen(s Term) Term { return app(SInt, "s-len", s) }
func slCap(s Term) Term { return app(SInt, "s-cap", s) }
func mkSlice(arr, off, ln, cp Term) Term {
	return app(SSlice, "mk-slice", arr, off, ln, cp)
}

var nilSlice = T(SSlice, "(mk-slice 0 0 0 0)")

// tIx is the backing-array index of element k of a slice with offset off. It is an uninterpreted
// function with the axiom ix(o,k) = o+k (prelude): keeping the sum under a function symbol makes the
// instantiation patterns of quantified facts about s[k] purely syntactic (solvers normalise bare sums,
// which defeats e-matching).
func tIx(off, k Term) Term { return app(SInt, "ix", off, k) }

// Decls is a registry of declared SMT symbols, emitted in insertion order.
type Decls struct {
	order []string
	text  map[string]string
}

func newDecls() *Decls { return &Decls{text: map[string]string{}} }

func (d *Decls) declare(name, text string) {
	if _, ok := d.text[name]; ok {
		return
	}
	d.text[name] = text
	d.order = append(d.order, name)
}

func (d *Decls) constant(name, sort string) Term {
	d.declare(name, fmt.Sprintf("(declare-fun %s () %s)", name, sort))
	return T(sort, name)
}

func (d *Decls) fun(name string, args []string, res string) {
	d.declare(name, fmt.Sprintf("(declare-fun %s (%s) %s)", name, strings.Join(args, " "), res))
}

func (d *Decls) dump() string {
	var b strings.Builder
	for _, n := range d.order {
		b.WriteString(d.text[n])
		b.WriteString("\n")
	}
	return b.String()
}

const smtPrelude = `(set-option :produce-models true)
(set-logic ALL)
(declare-sort Hdr 0)
(declare-sort Str 0)
(declare-sort Err 0)
(declare-sort Bytes 0)
(declare-sort Key 0)
(declare-fun emptyKey () Key)
(declare-datatypes ((Slice 0)) (((mk-slice (s-arr Int) (s-off Int) (s-len Int) (s-cap Int)))))
(declare-fun ix (Int Int) Int)
(assert (forall ((o Int) (k Int)) (! (= (ix o k) (+ o k)) :pattern ((ix o k)))))
(declare-fun height (Hdr) Int)
(declare-fun htime (Hdr) Int)
(declare-fun chainID (Hdr) Str)
(declare-fun hash (Hdr) Bytes)
(declare-fun lastHash (Hdr) Bytes)
(declare-fun isZero (Hdr) Bool)
(declare-fun zeroHdr () Hdr)
(assert (isZero zeroHdr))
(assert (forall ((h Hdr)) (! (and (<= 0 (height h)) (< (height h) 18446744073709551616)) :pattern ((height h)))))
(declare-fun nilErr () Err)
(declare-fun errIs (Err Err) Bool)
(declare-fun nilBytes () Bytes)
(declare-fun blen (Bytes) Int)
(assert (= (blen nilBytes) 0))
(assert (forall ((b Bytes)) (! (<= 0 (blen b)) :pattern ((blen b)))))
(declare-fun hexStr (Bytes) Str)
(declare-fun unhexStr (Str) Bytes)
(assert (forall ((b Bytes)) (! (= (unhexStr (hexStr b)) b) :pattern ((hexStr b)))))
(declare-fun emptyStr () Str)
(declare-fun slen (Str) Int)
(assert (= (slen emptyStr) 0))
(assert (forall ((s Str)) (! (and (<= 0 (slen s)) (=> (= (slen s) 0) (= s emptyStr))) :pattern ((slen s)))))
(declare-fun foldEq (Str Str) Bool)
(assert (forall ((a Str)) (! (foldEq a a) :pattern ((foldEq a a)))))
`

func sortedKeys[V any](m map[string]V) []string {
	ks := make([]string, 0, len(m))
	for k := range m {
		ks = append(ks, k)
	}
	sort.Strings(ks)
	return ks
}

// sanitize makes an identifier safe for SMT-LIB simple symbols.
func sanitize(s string) string {
	var b strings.Builder
	for _, r := range s {
		switch {
		case r >= 'a' && r <= 'z', r >= 'A' && r <= 'Z', r >= '0' && r <= '9', r == '_', r == '.', r == '$':
			b.WriteRune(r)
		default:
			b.WriteRune('_')
		}
	}
	return b.String()
}

// useLambdaArrays adds array-lambda definitions next to the quantified definitions of copied arrays.
var useLambdaArrays = true
