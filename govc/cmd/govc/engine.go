package main

import (
	"fmt"
	"go/types"
	"os"
	"path/filepath"
	"sort"
	"strings"

	"golang.org/x/tools/go/packages"
	"golang.org/x/tools/go/ssa"
	"golang.org/x/tools/go/ssa/ssautil"
)

const repoModule = "github.com/celestiaorg/go-header"

// Engine holds the loaded program, the contracts and global naming state.
type Engine struct {
	repo    string
	activeProp string // property being checked ("" = none): selects tagged atomic declarations
	prog    *ssa.Program
	pkgs    map[string]*ssa.Package // short name -> package
	tpkgs   map[string]*types.Package
	funcs   map[string]*ssa.Function // display name -> function (generic origin)
	specs   map[string]*FuncSpec     // display name -> spec  (funcs)
	ifaces  map[string]*FuncSpec     // "pkg.Iface.Method" -> spec
	fields  map[string]*FuncSpec     // "pkg.Struct.field" -> spec of func-typed field
	externs map[string]*FuncSpec     // model name of an external function -> assumed contract
	pures   map[string]*PureFunc
	preds   map[string]*PredDecl
	ghosts  map[string]*GhostVar
	axioms  []*AxiomDecl
	locks   map[string]*LockInv // "pkg.Struct.mutex"
	chans   map[string]*ChanInv
	atomics map[string]*ChanInv
	files   []*SpecFile

	sentinels    []string          // SMT constant names of sentinel errors
	sentinelOf   map[string]string // "pkgpath.Name" -> smt const
	errStructs   []string          // names of error struct types (VerifyError, errNonAdjacent)
	writeSets    map[*ssa.Function]writeSetT
	bindErrors   []string
	assumptions  map[string]bool // textual assumption registry (global)
	uncovered    map[string]bool // call sites whose tagged callee precondition is checked under no property
	extraSpecDir string
}

func shortPkg(path string) string {
	switch path {
	case repoModule:
		return "header"
	}
	if strings.HasPrefix(path, repoModule+"/") {
		rest := strings.TrimPrefix(path, repoModule+"/")
		if rest == "p2p/pb" {
			return "pb"
		}
		return strings.ReplaceAll(rest, "/", "_")
	}
	return filepath.Base(path)
}

func loadEngine(repo string, specDir string) (*Engine, error) {
	// go/packages resolves the go command through this process's PATH: /repo needs the newer toolchain.
	os.Setenv("PATH", "/opt/veriftools/go1.26.8/bin:"+os.Getenv("PATH"))
	os.Setenv("GOTOOLCHAIN", "local")
	cfg := &packages.Config{
		Mode:       packages.LoadSyntax,
		Dir:        repo,
		BuildFlags: []string{"-tags=verif"},
		Env:        append(os.Environ(), "GOFLAGS=-mod=mod", "GOPROXY=off", "GOSUMDB=off", "GOTOOLCHAIN=local", "PATH=/opt/veriftools/go1.26.8/bin:"+os.Getenv("PATH")),
	}
	pkgs, err := packages.Load(cfg, ".", "./sync", "./store", "./p2p", "./p2p/pb")
	if err != nil {
		return nil, err
	}
	nerr := 0
	packages.Visit(pkgs, nil, func(p *packages.Package) {
		for _, e := range p.Errors {
			fmt.Fprintf(os.Stderr, "load error: %v\n", e)
			nerr++
		}
	})
	if nerr > 0 {
		return nil, fmt.Errorf("%d package load errors", nerr)
	}
	prog, spkgs := ssautil.Packages(pkgs, ssa.NaiveForm|ssa.GlobalDebug)
	prog.Build()
	e := &Engine{
		repo: repo, prog: prog,
		pkgs: map[string]*ssa.Package{}, tpkgs: map[string]*types.Package{},
		funcs: map[string]*ssa.Function{}, specs: map[string]*FuncSpec{}, ifaces: map[string]*FuncSpec{}, fields: map[string]*FuncSpec{}, externs: map[string]*FuncSpec{},
		pures: map[string]*PureFunc{}, preds: map[string]*PredDecl{}, ghosts: map[string]*GhostVar{},
		locks: map[string]*LockInv{}, chans: map[string]*ChanInv{}, atomics: map[string]*ChanInv{},
		sentinelOf: map[string]string{}, writeSets: map[*ssa.Function]writeSetT{}, assumptions: map[string]bool{}, uncovered: map[string]bool{},
		extraSpecDir: specDir,
	}
	for _, sp := range spkgs {
		if sp == nil {
			continue
		}
		sn := shortPkg(sp.Pkg.Path())
		e.pkgs[sn] = sp
		e.tpkgs[sn] = sp.Pkg
		e.indexPackage(sn, sp)
	}
	// also index types packages of dependencies we refer to in specs
	allPkgs := prog.AllPackages()
	// deterministic, shortest import path first: "context" must mean the standard library package even
	// when a dependency's path also ends in /context
	sort.Slice(allPkgs, func(i, j int) bool {
		a, b := allPkgs[i].Pkg.Path(), allPkgs[j].Pkg.Path()
		if len(a) != len(b) {
			return len(a) < len(b)
		}
		return a < b
	})
	for _, p := range allPkgs {
		sn := shortPkg(p.Pkg.Path())
		if _, ok := e.tpkgs[sn]; !ok {
			e.tpkgs[sn] = p.Pkg
		}
		if _, ok := e.tpkgs[p.Pkg.Name()]; !ok {
			e.tpkgs[p.Pkg.Name()] = p.Pkg // dependencies are also reachable by their package name (pubsub)
		}
	}
	if err := e.loadSpecs(); err != nil {
		return nil, err
	}
	e.collectSentinels()
	return e, nil
}

// funcDisplayName: header.Verify, sync.(*Syncer).verify, store.(*Store).flushLoop$1
func funcDisplayName(fn *ssa.Function) string {
	if fn == nil {
		return "<nil>"
	}
	if o := fn.Origin(); o != nil {
		fn = o
	}
	if fn.Parent() != nil {
		// anonymous function: parent name + $n
		name := fn.Name() // e.g. flushLoop$1
		if i := strings.LastIndex(name, "$"); i >= 0 {
			return funcDisplayName(fn.Parent()) + name[i:]
		}
		return funcDisplayName(fn.Parent()) + "$" + name
	}
	pkg := ""
	if fn.Pkg != nil {
		pkg = shortPkg(fn.Pkg.Pkg.Path())
	} else if fn.Object() != nil && fn.Object().Pkg() != nil {
		pkg = shortPkg(fn.Object().Pkg().Path())
	}
	if recv := fn.Signature.Recv(); recv != nil {
		t := recv.Type()
		ptr := false
		if p, ok := t.(*types.Pointer); ok {
			t = p.Elem()
			ptr = true
		}
		tn := typeBaseName(t)
		if ptr {
			return fmt.Sprintf("%s.(*%s).%s", pkg, tn, fn.Name())
		}
		return fmt.Sprintf("%s.(%s).%s", pkg, tn, fn.Name())
	}
	name := fn.Name()
	if i := strings.Index(name, "["); i >= 0 {
		name = name[:i]
	}
	return pkg + "." + name
}

func typeBaseName(t types.Type) string {
	switch tt := t.(type) {
	case *types.Named:
		return tt.Obj().Name()
	case *types.Alias:
		return tt.Obj().Name()
	case *types.Pointer:
		return typeBaseName(tt.Elem())
	}
	return t.String()
}

func (e *Engine) indexPackage(sn string, sp *ssa.Package) {
	add := func(fn *ssa.Function) {
		if fn == nil {
			return
		}
		var rec func(f *ssa.Function)
		rec = func(f *ssa.Function) {
			e.funcs[funcDisplayName(f)] = f
			for _, a := range f.AnonFuncs {
				rec(a)
			}
		}
		rec(fn)
	}
	for _, m := range sp.Members {
		switch mm := m.(type) {
		case *ssa.Function:
			add(mm)
		case *ssa.Type:
			nt, ok := mm.Type().(*types.Named)
			if !ok {
				continue
			}
			for i := 0; i < nt.NumMethods(); i++ {
				add(e.prog.FuncValue(nt.Method(i)))
			}
		}
	}
}

func (e *Engine) loadSpecs() error {
	var paths [][2]string
	for sn, sp := range e.pkgs {
		rel := strings.TrimPrefix(sp.Pkg.Path(), repoModule)
		p := filepath.Join(e.repo, rel, "verif_contracts.go")
		if _, err := os.Stat(p); err == nil {
			paths = append(paths, [2]string{p, sn})
		}
	}
	if e.extraSpecDir != "" {
		ms, _ := filepath.Glob(filepath.Join(e.extraSpecDir, "*.spec"))
		for _, m := range ms {
			paths = append(paths, [2]string{m, strings.TrimSuffix(filepath.Base(m), ".spec")})
		}
	}
	sort.Slice(paths, func(i, j int) bool { return paths[i][0] < paths[j][0] })
	for _, p := range paths {
		sf, err := parseSpecFile(p[0], p[1])
		if err != nil {
			return err
		}
		e.files = append(e.files, sf)
		for _, fs := range sf.Funcs {
			for _, ef := range fs.Effects {
				fs.Modifies = append(fs.Modifies, "ghost:"+ef.Var)
			}
			switch fs.Kind {
			case "func":
				name := fs.Target
				if !strings.Contains(name, ".") || strings.HasPrefix(name, "(") {
					name = sf.Pkg + "." + name
				}
				fs.Target = name
				if _, dup := e.specs[name]; dup {
					return fmt.Errorf("%s:%d: duplicate contract for %s", fs.File, fs.Line, name)
				}
				e.specs[name] = fs
				if _, ok := e.funcs[name]; !ok {
					e.bindErrors = append(e.bindErrors, fmt.Sprintf("%s:%d: contract target %s does not exist in the code", fs.File, fs.Line, name))
				}
			case "iface":
				name := fs.Target
				if strings.Count(name, ".") == 1 {
					name = sf.Pkg + "." + name
				}
				fs.Target = name
				e.ifaces[name] = fs
			case "extern":
				// assumed contract of an external (dependency) function, keyed by its model name,
				// e.g. (*github.com/ipfs/go-datastore/keytransform.Datastore).Get
				e.externs[fs.Target] = fs
			case "field":
				name := fs.Target
				if strings.Count(name, ".") == 1 {
					name = sf.Pkg + "." + name
				}
				fs.Target = name
				e.fields[name] = fs
			}
		}
		for _, pf := range sf.Pures {
			e.pures[pf.Name] = pf
		}
		for _, pd := range sf.Preds {
			e.preds[pd.Name] = pd
		}
		for _, g := range sf.Ghosts {
			e.ghosts[g.Name] = g
		}
		e.axioms = append(e.axioms, sf.Axioms...)
		for _, l := range sf.Locks {
			e.locks[sf.Pkg+"."+l.Struct+"."+l.Mutex] = l
		}
		for _, c := range sf.Chans {
			e.chans[sf.Pkg+"."+c.Key] = c
		}
		for _, c := range sf.Atomics {
			e.atomics[sf.Pkg+"."+c.Key] = c
		}
	}
	return nil
}

// collectSentinels finds package-level error variables (of the repo and a few well-known
// dependencies) and registers them as distinct sentinel constants.
func (e *Engine) collectSentinels() {
	add := func(path, name string) {
		key := path + "." + name
		if _, ok := e.sentinelOf[key]; ok {
			return
		}
		c := "sent_" + sanitize(shortPkg(path)+"_"+name)
		e.sentinelOf[key] = c
		e.sentinels = append(e.sentinels, c)
	}
	var names []string
	for sn := range e.pkgs {
		names = append(names, sn)
	}
	sort.Strings(names)
	for _, sn := range names {
		sp := e.pkgs[sn]
		var ms []string
		for n := range sp.Members {
			ms = append(ms, n)
		}
		sort.Strings(ms)
		for _, n := range ms {
			if g, ok := sp.Members[n].(*ssa.Global); ok {
				if pt, ok := g.Type().(*types.Pointer); ok && isErrorType(pt.Elem()) {
					add(sp.Pkg.Path(), n)
				}
			}
		}
	}
	add("context", "Canceled")
	add("context", "DeadlineExceeded")
	add("github.com/ipfs/go-datastore", "ErrNotFound")
	add("io", "EOF")
	e.errStructs = []string{"header.VerifyError", "sync.errNonAdjacent"}
}

func isErrorType(t types.Type) bool {
	if n, ok := t.(*types.Named); ok {
		return n.Obj().Name() == "error" && n.Obj().Pkg() == nil
	}
	return false
}

// lookupSpecFor returns the contract for a concrete function (by origin).
func (e *Engine) lookupSpecFor(fn *ssa.Function) *FuncSpec {
	return e.specs[funcDisplayName(fn)]
}

// lookupNamedType resolves "T" or "pkg.T" in the context of package short name pkg.
func (e *Engine) lookupNamedType(pkg, name string) types.Type {
	if i := strings.Index(name, "."); i >= 0 {
		pkg = name[:i]
		name = name[i+1:]
	}
	tp := e.tpkgs[pkg]
	if tp == nil {
		return nil
	}
	obj := tp.Scope().Lookup(name)
	if obj == nil {
		return nil
	}
	if tn, ok := obj.(*types.TypeName); ok {
		return tn.Type()
	}
	return nil
}

// atomicFor: the rely/guarantee relation declared for an atomic field, if active for the property under check.
// Without an active declaration an atomic is given sequential semantics (single-writer view).
func (e *Engine) atomicFor(key string) *ChanInv {
	ai := e.atomics[key]
	if ai == nil || len(ai.Tags) == 0 {
		return ai
	}
	for _, t := range ai.Tags {
		if t == e.activeProp {
			return ai
		}
	}
	return nil
}

// applyMode: when the property under check activates a rely/guarantee relation on an atomic (concurrent
// reading of the code), clauses tagged `seq` -- which are only meant under the sequential, single-writer
// reading of atomics -- are dropped from every contract: they are neither assumed nor asserted.
func (e *Engine) applyMode() {
	active := false
	for _, ai := range e.atomics {
		if len(ai.Tags) > 0 && e.atomicFor(ai.Pkg+"."+ai.Key) != nil {
			active = true
		}
	}
	if !active {
		return
	}
	keep := func(cs []Clause) []Clause {
		var out []Clause
		for _, c := range cs {
			seq := false
			for _, t := range c.Tags {
				if t == "seq" {
					seq = true
				}
			}
			if !seq {
				out = append(out, c)
			}
		}
		return out
	}
	for _, sp := range e.specs {
		sp.Requires = keep(sp.Requires)
		sp.Ensures = keep(sp.Ensures)
		for _, l := range sp.Loops {
			l.Invariants = keep(l.Invariants)
		}
	}
}
