package main

import (
	"fmt"
	"os"
	"path/filepath"
	"strconv"
	"strings"
	"unicode"
)

// ---------------------------------------------------------------------------
// Spec expression AST

type Expr interface{}

type (
	EIdent struct{ Name string }
	EInt   struct{ Val string }
	EStr   struct{ Val string }
	EUnary struct {
		Op string
		X  Expr
	}
	EBinary struct {
		Op   string
		X, Y Expr
	}
	ECall struct {
		Fun  Expr
		Args []Expr
	}
	ESel struct {
		X   Expr
		Sel string
	}
	EIndex struct {
		X, I Expr
	}
	EQuant struct {
		Forall   bool
		Vars     []QVar
		Body     Expr
		Triggers []Expr // optional explicit instantiation patterns (one multi-pattern)
	}
	EOld struct{ X Expr }
)

type QVar struct {
	Name string
	Type string
}

// ---------------------------------------------------------------------------
// Contract structures

type Clause struct {
	Tags []string
	Name string
	Expr Expr
	Src  string
	File string
	Line int
}

type LoopSpec struct {
	Invariants []Clause
	Decreases  []Clause
}

type RelyClause struct {
	Callee string
	Clause Clause
}

type GhostBind struct {
	Name   string
	Method string // invoke method name / static callee short name
	Ord    int
	Type   string // spec type of the bound value ("" = error)
	Kind   string // "invoke" (default) | "call"
	ResIdx int    // tuple element for multi-result callees
}

type FuncSpec struct {
	Kind      string // func | iface | field
	Pkg       string // package short name (header, sync, store, p2p)
	Target    string // as written
	Params    []string
	Requires  []Clause
	Ensures   []Clause
	Assumes   []Clause // postconditions assumed at call sites and NOT proved (each is listed as an assumption)
	Defines   []Clause // history-predicate definitions: assumed at call sites, not proved (listed)
	Effects   []GhostEffect // ghost assignments executed at exit (history variables)
	Relies      []RelyClause // interference invariants re-assumed after a blocking call returns
	Befores     []RelyClause // call-site obligations: must hold whenever the named callee is called
	Resets      []string     // atomics (Struct.field) this function may reset outside their rely/guarantee relation
	Unreachable []string    // return sites declared dead under the contract assumptions (must be vacuous)
	PanicEns  []Clause // ensures that must hold if the function panics out (rare)
	Modifies  []string
	Loops     map[int]*LoopSpec
	Inline    bool
	MayPanic  bool
	NoPanic   bool
	ZeroSafe  bool // header observers (Height, Time, Hash, ...) are only ever invoked on headers known to be non-zero
	Trusted   bool // contract assumed, body not verified (listed as assumption)
	Ghosts    []GhostBind
	Asserts   []Clause // named cut assertions placed by "assert at <marker>" (unused for now)
	StepInvs  []Clause
	File      string
	Line      int
	Props     []string // properties this function's safety obligations belong to
	BodyProps []string
}

type GhostEffect struct {
	Var    string
	Clause Clause
}

type PureFunc struct {
	Name   string
	Params []string
	Body   Expr
	Src    string
}

type PredDecl struct {
	Name   string
	Params []QVar
	Result string // type name; "bool" for predicates
}

type GhostVar struct {
	Name string
	Type string
}

type AxiomDecl struct {
	Pkg  string // package whose identifiers the axiom may name
	Name string
	Vars []QVar
	Expr Expr
	Src  string
}

type LockInv struct {
	Pkg       string
	Struct    string // struct type name
	Mutex     string // field name
	Self      string // name bound to the struct pointer
	Inv       Clause
	Protected []string // "Struct.field" heap names
}

type ChanInv struct {
	Pkg    string
	Key    string // "Struct.field" or "func:local"
	Var    string
	Params []string
	Inv    Clause
	Tags   []string // properties the declaration is active for (empty: always)
}

type SpecFile struct {
	Pkg     string
	Funcs   []*FuncSpec
	Pures   []*PureFunc
	Preds   []*PredDecl
	Ghosts  []*GhostVar
	Axioms  []*AxiomDecl
	Locks   []*LockInv
	Chans   []*ChanInv
	Atomics []*ChanInv // reuse: Key = Struct.field, Inv over old,new
}

// ---------------------------------------------------------------------------
// Lexer

type stok struct {
	kind string // ident int str op eof
	val  string
}

type lexer struct {
	src  string
	pos  int
	toks []stok
}

func lexExpr(src string) ([]stok, error) {
	var toks []stok
	i := 0
	for i < len(src) {
		c := src[i]
		switch {
		case c == ' ' || c == '\t' || c == '\n':
			i++
		case unicode.IsLetter(rune(c)) || c == '_' || c == '$':
			j := i + 1
			for j < len(src) && (unicode.IsLetter(rune(src[j])) || unicode.IsDigit(rune(src[j])) || src[j] == '_' || src[j] == '$' || src[j] == '#') {
				j++
			}
			toks = append(toks, stok{"ident", src[i:j]})
			i = j
		case unicode.IsDigit(rune(c)):
			j := i + 1
			for j < len(src) && (unicode.IsDigit(rune(src[j])) || src[j] == '_') {
				j++
			}
			toks = append(toks, stok{"int", strings.ReplaceAll(src[i:j], "_", "")})
			i = j
		case c == '"':
			j := i + 1
			for j < len(src) && src[j] != '"' {
				j++
			}
			if j >= len(src) {
				return nil, fmt.Errorf("unterminated string")
			}
			toks = append(toks, stok{"str", src[i+1 : j]})
			i = j + 1
		default:
			ops := []string{"<==>", "==>", "::", "@", "==", "!=", "<=", ">=", "&&", "||", "(", ")", "[", "]", ",", ".", "<", ">", "+", "-", "*", "/", "%", "!", ":", "?"}
			matched := false
			for _, op := range ops {
				if strings.HasPrefix(src[i:], op) {
					toks = append(toks, stok{"op", op})
					i += len(op)
					matched = true
					break
				}
			}
			if !matched {
				return nil, fmt.Errorf("unexpected character %q at %d in %q", c, i, src)
			}
		}
	}
	toks = append(toks, stok{"eof", ""})
	return toks, nil
}

type parser struct {
	toks []stok
	pos  int
}

func (p *parser) peek() stok { return p.toks[p.pos] }
func (p *parser) next() stok { t := p.toks[p.pos]; p.pos++; return t }
func (p *parser) isOp(s string) bool {
	t := p.peek()
	return t.kind == "op" && t.val == s
}
func (p *parser) isIdent(s string) bool {
	t := p.peek()
	return t.kind == "ident" && t.val == s
}
func (p *parser) expectOp(s string) error {
	if !p.isOp(s) {
		return fmt.Errorf("expected %q, got %q", s, p.peek().val)
	}
	p.pos++
	return nil
}

func parseExprString(src string) (Expr, error) {
	toks, err := lexExpr(src)
	if err != nil {
		return nil, err
	}
	p := &parser{toks: toks}
	e, err := p.parseExpr()
	if err != nil {
		return nil, fmt.Errorf("%v in %q", err, src)
	}
	if p.peek().kind != "eof" {
		return nil, fmt.Errorf("trailing tokens starting at %q in %q", p.peek().val, src)
	}
	return e, nil
}

// precedence: quantifier < <==> < ==> < || < && < cmp < + - < * / % < unary < postfix
func (p *parser) parseExpr() (Expr, error) {
	if p.isIdent("forall") || p.isIdent("exists") {
		forall := p.next().val == "forall"
		var vars []QVar
		for {
			if p.peek().kind != "ident" {
				return nil, fmt.Errorf("expected quantified variable name")
			}
			name := p.next().val
			typ, err := p.parseTypeName()
			if err != nil {
				return nil, err
			}
			vars = append(vars, QVar{name, typ})
			if p.isOp(",") {
				p.pos++
				continue
			}
			break
		}
		// optional explicit triggers:  forall i int @ result[i+1], f(i) :: body
		var triggers []Expr
		if p.isOp("@") {
			p.pos++
			for {
				t, err := p.parseAddSub()
				if err != nil {
					return nil, err
				}
				triggers = append(triggers, t)
				if p.isOp(",") {
					p.pos++
					continue
				}
				if p.isOp("@") {
					// a further @ starts an alternative pattern
					p.pos++
					triggers = append(triggers, nil)
					continue
				}
				break
			}
		}
		if err := p.expectOp("::"); err != nil {
			return nil, err
		}
		body, err := p.parseExpr()
		if err != nil {
			return nil, err
		}
		return &EQuant{Forall: forall, Vars: vars, Body: body, Triggers: triggers}, nil
	}
	return p.parseIff()
}

func (p *parser) parseTypeName() (string, error) {
	s := ""
	for p.isOp("*") || p.isOp("[") {
		if p.isOp("*") {
			p.pos++
			s += "*"
		} else {
			p.pos++
			if err := p.expectOp("]"); err != nil {
				return "", err
			}
			s += "[]"
		}
	}
	if p.peek().kind != "ident" {
		return "", fmt.Errorf("expected type name, got %q", p.peek().val)
	}
	s += p.next().val
	if p.isOp(".") {
		p.pos++
		s += "." + p.next().val
	}
	return s, nil
}

func (p *parser) parseIff() (Expr, error) {
	x, err := p.parseImp()
	if err != nil {
		return nil, err
	}
	for p.isOp("<==>") {
		p.pos++
		y, err := p.parseImp()
		if err != nil {
			return nil, err
		}
		x = &EBinary{"<==>", x, y}
	}
	return x, nil
}

func (p *parser) parseImp() (Expr, error) {
	x, err := p.parseOr()
	if err != nil {
		return nil, err
	}
	if p.isOp("==>") {
		p.pos++
		// right associative; allow quantifier on the right
		var y Expr
		if p.isIdent("forall") || p.isIdent("exists") {
			y, err = p.parseExpr()
		} else {
			y, err = p.parseImp()
		}
		if err != nil {
			return nil, err
		}
		return &EBinary{"==>", x, y}, nil
	}
	return x, nil
}

func (p *parser) parseOr() (Expr, error) {
	x, err := p.parseAnd()
	if err != nil {
		return nil, err
	}
	for p.isOp("||") {
		p.pos++
		y, err := p.parseAnd()
		if err != nil {
			return nil, err
		}
		x = &EBinary{"||", x, y}
	}
	return x, nil
}

func (p *parser) parseAnd() (Expr, error) {
	x, err := p.parseCmp()
	if err != nil {
		return nil, err
	}
	for p.isOp("&&") {
		p.pos++
		var y Expr
		if p.isIdent("forall") || p.isIdent("exists") {
			y, err = p.parseExpr()
		} else {
			y, err = p.parseCmp()
		}
		if err != nil {
			return nil, err
		}
		x = &EBinary{"&&", x, y}
	}
	return x, nil
}

func (p *parser) parseCmp() (Expr, error) {
	x, err := p.parseAddSub()
	if err != nil {
		return nil, err
	}
	for {
		t := p.peek()
		if t.kind == "op" && (t.val == "==" || t.val == "!=" || t.val == "<" || t.val == "<=" || t.val == ">" || t.val == ">=") {
			p.pos++
			y, err := p.parseAddSub()
			if err != nil {
				return nil, err
			}
			// chained comparisons a <= b < c
			if b, ok := x.(*EBinary); ok && isCmp(b.Op) && isOrd(t.val) && isOrd(b.Op) {
				x = &EBinary{"&&", x, &EBinary{t.val, b.Y, y}}
			} else {
				x = &EBinary{t.val, x, y}
			}
			continue
		}
		return x, nil
	}
}

func isCmp(op string) bool {
	switch op {
	case "==", "!=", "<", "<=", ">", ">=":
		return true
	}
	return false
}
func isOrd(op string) bool {
	switch op {
	case "<", "<=", ">", ">=":
		return true
	}
	return false
}

func (p *parser) parseAddSub() (Expr, error) {
	x, err := p.parseMul()
	if err != nil {
		return nil, err
	}
	for p.isOp("+") || p.isOp("-") {
		op := p.next().val
		y, err := p.parseMul()
		if err != nil {
			return nil, err
		}
		x = &EBinary{op, x, y}
	}
	return x, nil
}

func (p *parser) parseMul() (Expr, error) {
	x, err := p.parseUnary()
	if err != nil {
		return nil, err
	}
	for p.isOp("*") || p.isOp("/") || p.isOp("%") {
		op := p.next().val
		y, err := p.parseUnary()
		if err != nil {
			return nil, err
		}
		x = &EBinary{op, x, y}
	}
	return x, nil
}

func (p *parser) parseUnary() (Expr, error) {
	if p.isOp("!") || p.isOp("-") {
		op := p.next().val
		x, err := p.parseUnary()
		if err != nil {
			return nil, err
		}
		return &EUnary{op, x}, nil
	}
	return p.parsePostfix()
}

func (p *parser) parsePostfix() (Expr, error) {
	x, err := p.parsePrimary()
	if err != nil {
		return nil, err
	}
	for {
		switch {
		case p.isOp("."):
			p.pos++
			if p.peek().kind != "ident" {
				return nil, fmt.Errorf("expected selector")
			}
			x = &ESel{x, p.next().val}
		case p.isOp("("):
			p.pos++
			var args []Expr
			for !p.isOp(")") {
				a, err := p.parseExpr()
				if err != nil {
					return nil, err
				}
				args = append(args, a)
				if p.isOp(",") {
					p.pos++
				} else if !p.isOp(")") {
					return nil, fmt.Errorf("expected , or ) in call, got %q", p.peek().val)
				}
			}
			p.pos++
			if id, ok := x.(*EIdent); ok && id.Name == "old" && len(args) == 1 {
				x = &EOld{args[0]}
			} else {
				x = &ECall{x, args}
			}
		case p.isOp("["):
			p.pos++
			i, err := p.parseExpr()
			if err != nil {
				return nil, err
			}
			if err := p.expectOp("]"); err != nil {
				return nil, err
			}
			x = &EIndex{x, i}
		default:
			return x, nil
		}
	}
}

func (p *parser) parsePrimary() (Expr, error) {
	if p.isIdent("forall") || p.isIdent("exists") {
		// a quantifier in operand position extends as far to the right as possible
		return p.parseExpr()
	}
	t := p.next()
	switch t.kind {
	case "ident":
		return &EIdent{t.val}, nil
	case "int":
		return &EInt{t.val}, nil
	case "str":
		return &EStr{t.val}, nil
	case "op":
		if t.val == "(" {
			e, err := p.parseExpr()
			if err != nil {
				return nil, err
			}
			if err := p.expectOp(")"); err != nil {
				return nil, err
			}
			return e, nil
		}
	}
	return nil, fmt.Errorf("unexpected token %q", t.val)
}

// ---------------------------------------------------------------------------
// File parser: line based.

var clauseKeywords = map[string]bool{
	"func": true, "iface": true, "field": true, "extern": true, "pure": true, "predicate": true, "ghost": true, "axiom": true,
	"lockinv": true, "protected": true, "chaninv": true, "atomic": true,
	"requires": true, "ensures": true, "defines": true, "assumes": true, "modifies": true, "decreases": true, "loop": true, "invariant": true,
	"effect": true, "unreachable": true, "rely": true, "before": true, "resets": true, "inline": true, "maypanic": true, "nopanic": true, "zerosafe": true, "trusted": true, "stepinv": true, "props": true, "function": true,
}

type rawLine struct {
	text string
	line int
}

// parseSpecFile reads a contract file consisting of //@ lines.
func parseSpecFile(path, pkg string) (*SpecFile, error) {
	data, err := os.ReadFile(path)
	if err != nil {
		return nil, err
	}
	var lines []rawLine
	for i, l := range strings.Split(string(data), "\n") {
		tl := strings.TrimSpace(l)
		if !strings.HasPrefix(tl, "//@") {
			continue
		}
		body := strings.TrimSpace(tl[3:])
		if body == "" || strings.HasPrefix(body, "--") {
			continue
		}
		// strip trailing comments introduced by " -- "
		if k := strings.Index(body, " -- "); k >= 0 {
			body = strings.TrimSpace(body[:k])
		}
		first := body
		if k := strings.IndexAny(body, " \t:["); k >= 0 {
			first = body[:k]
		}
		if clauseKeywords[first] || len(lines) == 0 {
			lines = append(lines, rawLine{body, i + 1})
		} else {
			// continuation
			lines[len(lines)-1].text += " " + body
		}
	}
	sf := &SpecFile{Pkg: pkg}
	var cur *FuncSpec
	var curLoop *LoopSpec
	base := filepath.Base(filepath.Dir(path)) + "/" + filepath.Base(path)
	fail := func(l rawLine, f string, a ...any) error {
		return fmt.Errorf("%s:%d: %s", path, l.line, fmt.Sprintf(f, a...))
	}
	for _, l := range lines {
		kw, rest := splitKw(l.text)
		switch kw {
		case "func", "iface", "field", "extern":
			target, params, err := parseHeader(rest)
			if err != nil {
				return nil, fail(l, "%v", err)
			}
			cur = &FuncSpec{Kind: kw, Pkg: pkg, Target: target, Params: params, Loops: map[int]*LoopSpec{}, File: base, Line: l.line}
			curLoop = nil
			sf.Funcs = append(sf.Funcs, cur)
		case "requires", "ensures", "invariant", "decreases", "stepinv", "defines", "assumes":
			tags, name, exprSrc := splitTagsName(rest)
			if kw == "decreases" {
				// lexicographic measure: comma separated list of terms
				parts := splitTopLevelCommas(exprSrc)
				if curLoop == nil {
					return nil, fail(l, "decreases outside loop")
				}
				for _, part := range parts {
					pe, err := parseExprString(part)
					if err != nil {
						return nil, fail(l, "%v", err)
					}
					curLoop.Decreases = append(curLoop.Decreases, Clause{Tags: tags, Name: name, Expr: pe, Src: exprSrc, File: base, Line: l.line})
				}
				continue
			}
			e, err := parseExprString(exprSrc)
			if err != nil {
				return nil, fail(l, "%v", err)
			}
			cl := Clause{Tags: tags, Name: name, Expr: e, Src: exprSrc, File: base, Line: l.line}
			if cur == nil {
				return nil, fail(l, "clause outside of func")
			}
			switch kw {
			case "requires":
				cur.Requires = append(cur.Requires, cl)
			case "ensures":
				cur.Ensures = append(cur.Ensures, cl)
			case "stepinv":
				cur.StepInvs = append(cur.StepInvs, cl)
			case "assumes":
				cur.Assumes = append(cur.Assumes, cl)
			case "defines":
				// must have the shape  cond ==> pred(args)  with pred an uninterpreted predicate
				b, ok := e.(*EBinary)
				if !ok || b.Op != "==>" {
					return nil, fail(l, "defines clause must be of the form cond ==> predicate(args)")
				}
				if c, ok := b.Y.(*ECall); !ok {
					return nil, fail(l, "defines clause must conclude with a predicate application")
				} else if _, ok := c.Fun.(*EIdent); !ok {
					return nil, fail(l, "defines clause must conclude with a predicate application")
				}
				cur.Defines = append(cur.Defines, cl)
			case "invariant":
				if curLoop == nil {
					return nil, fail(l, "invariant outside loop")
				}
				curLoop.Invariants = append(curLoop.Invariants, cl)
			case "decreases":
				if curLoop == nil {
					return nil, fail(l, "decreases outside loop")
				}
				curLoop.Decreases = append(curLoop.Decreases, cl)
			}
		case "rely":
			// rely after Callee: expr  -- other goroutines run while Callee blocks; the shared-state
			// invariant expr is assumed to hold again when it returns (rely condition, listed as assumption)
			if cur == nil {
				return nil, fail(l, "rely outside func")
			}
			r := strings.TrimSpace(strings.TrimPrefix(rest, "after"))
			k := strings.Index(r, ":")
			if !strings.HasPrefix(rest, "after") || k < 0 {
				return nil, fail(l, "rely needs: rely after Callee: expr")
			}
			e, err := parseExprString(strings.TrimSpace(r[k+1:]))
			if err != nil {
				return nil, fail(l, "%v", err)
			}
			cur.Relies = append(cur.Relies, RelyClause{Callee: strings.TrimSpace(r[:k]), Clause: Clause{Name: "rely", Expr: e, Src: r, File: base, Line: l.line}})
		case "resets":
			// resets Struct.field -- reason : this function deliberately (re)initialises the atomic and is
			// exempt from the rely/guarantee relation declared on it (it is not one of the concurrent writers
			// the relation is about)
			if cur == nil {
				return nil, fail(l, "resets outside func")
			}
			cur.Resets = append(cur.Resets, strings.TrimSpace(rest))
		case "before":
			// before Callee [tags] name: expr  -- call-site obligation: expr holds whenever the function
			// under contract calls Callee (ordering properties such as "stored before announced")
			if cur == nil {
				return nil, fail(l, "before outside func")
			}
			callee, rem := splitKw(rest)
			tags, name, exprSrc := splitTagsName(rem)
			e, err := parseExprString(exprSrc)
			if err != nil {
				return nil, fail(l, "%v", err)
			}
			cur.Befores = append(cur.Befores, RelyClause{Callee: callee, Clause: Clause{Tags: tags, Name: name, Expr: e, Src: exprSrc, File: base, Line: l.line}})
		case "unreachable":
			// unreachable return1, return2 : reason  -- return sites dead under the contract assumptions
			if cur == nil {
				return nil, fail(l, "unreachable outside func")
			}
			names := rest
			if k := strings.Index(rest, ":"); k >= 0 {
				names = rest[:k]
			}
			for _, n := range strings.Split(names, ",") {
				if n = strings.TrimSpace(n); n != "" {
					cur.Unreachable = append(cur.Unreachable, n)
				}
			}
		case "effect":
			// effect ghostvar := expr   -- ghost assignment executed at the function's exit
			if cur == nil {
				return nil, fail(l, "effect outside func")
			}
			k := strings.Index(rest, ":=")
			if k < 0 {
				return nil, fail(l, "effect needs ghostvar := expr")
			}
			e, err := parseExprString(strings.TrimSpace(rest[k+2:]))
			if err != nil {
				return nil, fail(l, "%v", err)
			}
			cur.Effects = append(cur.Effects, GhostEffect{Var: strings.TrimSpace(rest[:k]), Clause: Clause{Expr: e, Src: rest, File: base, Line: l.line}})
		case "modifies":
			if cur == nil {
				return nil, fail(l, "modifies outside func")
			}
			for _, m := range strings.Split(rest, ",") {
				m = strings.TrimSpace(m)
				if m != "" {
					cur.Modifies = append(cur.Modifies, m)
				}
			}
		case "props":
			if cur == nil {
				return nil, fail(l, "props outside func")
			}
			for _, m := range strings.Split(rest, ",") {
				m = strings.TrimSpace(m)
				if m != "" {
					cur.Props = append(cur.Props, m)
				}
			}
		case "loop":
			if cur == nil {
				return nil, fail(l, "loop outside func")
			}
			n, err := strconv.Atoi(strings.TrimSuffix(strings.TrimSpace(rest), ":"))
			if err != nil {
				return nil, fail(l, "bad loop ordinal %q", rest)
			}
			curLoop = &LoopSpec{}
			cur.Loops[n] = curLoop
		case "inline":
			cur.Inline = true
		case "maypanic":
			cur.MayPanic = true
		case "nopanic":
			cur.NoPanic = true
		case "zerosafe":
			cur.ZeroSafe = true
		case "trusted":
			cur.Trusted = true
		case "pure":
			// pure name(a, b) = expr
			eq := strings.Index(rest, "=")
			if eq < 0 {
				return nil, fail(l, "pure needs '='")
			}
			target, params, err := parseHeader(strings.TrimSpace(rest[:eq]))
			if err != nil {
				return nil, fail(l, "%v", err)
			}
			e, err := parseExprString(strings.TrimSpace(rest[eq+1:]))
			if err != nil {
				return nil, fail(l, "%v", err)
			}
			sf.Pures = append(sf.Pures, &PureFunc{Name: target, Params: params, Body: e, Src: rest})
		case "predicate", "function":
			// predicate name(a T, b U)   |  function name(a T) R
			op := strings.Index(rest, "(")
			cp := strings.LastIndex(rest, ")")
			if op < 0 || cp < op {
				return nil, fail(l, "bad predicate declaration")
			}
			pd := &PredDecl{Name: strings.TrimSpace(rest[:op]), Result: "bool"}
			if kw == "function" {
				pd.Result = strings.TrimSpace(rest[cp+1:])
			}
			for _, pr := range strings.Split(rest[op+1:cp], ",") {
				f := strings.Fields(pr)
				if len(f) == 2 {
					pd.Params = append(pd.Params, QVar{f[0], f[1]})
				} else if len(f) != 0 {
					return nil, fail(l, "bad predicate parameter %q", pr)
				}
			}
			sf.Preds = append(sf.Preds, pd)
		case "ghost":
			f := strings.Fields(rest)
			if len(f) >= 3 && f[0] == "var" {
				sf.Ghosts = append(sf.Ghosts, &GhostVar{Name: f[1], Type: f[2]})
			} else if len(f) >= 7 && f[2] == ":=" && strings.HasPrefix(f[3], "result") && f[4] == "of" {
				// ghost hd H := result0 of call Head #0
				ord := 0
				if len(f) >= 8 {
					ord, _ = strconv.Atoi(strings.TrimPrefix(f[7], "#"))
				}
				idx := 0
				if len(f[3]) > len("result") {
					idx, _ = strconv.Atoi(f[3][len("result"):])
				}
				if cur == nil {
					return nil, fail(l, "ghost binding outside func")
				}
				cur.Ghosts = append(cur.Ghosts, GhostBind{Name: f[0], Type: f[1], Kind: f[5], Method: f[6], Ord: ord, ResIdx: idx})
			} else if len(f) >= 6 && f[1] == ":=" && f[2] == "result" && f[3] == "of" {
				// ghost tv := result of invoke Verify #0
				ord := 0
				if len(f) >= 7 {
					ord, _ = strconv.Atoi(strings.TrimPrefix(f[6], "#"))
				}
				if cur == nil {
					return nil, fail(l, "ghost binding outside func")
				}
				cur.Ghosts = append(cur.Ghosts, GhostBind{Name: f[0], Method: f[5], Ord: ord})
			} else {
				return nil, fail(l, "bad ghost declaration")
			}
		case "axiom":
			// axiom name: [forall ...] expr
			c := strings.Index(rest, ":")
			if c < 0 {
				return nil, fail(l, "axiom needs name:")
			}
			e, err := parseExprString(strings.TrimSpace(rest[c+1:]))
			if err != nil {
				return nil, fail(l, "%v", err)
			}
			sf.Axioms = append(sf.Axioms, &AxiomDecl{Name: strings.TrimSpace(rest[:c]), Expr: e, Src: rest, Pkg: pkg})
		case "lockinv":
			// lockinv Struct.mutex(self): expr
			c := strings.Index(rest, "):")
			op := strings.Index(rest, "(")
			if c < 0 || op < 0 {
				return nil, fail(l, "lockinv Struct.mutex(self): expr")
			}
			path := strings.TrimSpace(rest[:op])
			parts := strings.Split(path, ".")
			if len(parts) != 2 {
				return nil, fail(l, "lockinv target must be Struct.field")
			}
			e, err := parseExprString(strings.TrimSpace(rest[c+2:]))
			if err != nil {
				return nil, fail(l, "%v", err)
			}
			sf.Locks = append(sf.Locks, &LockInv{Pkg: pkg, Struct: parts[0], Mutex: parts[1], Self: strings.TrimSpace(rest[op+1 : c]),
				Inv: Clause{Expr: e, Src: rest[c+2:], File: base, Line: l.line}})
		case "protected":
			// protected by Struct.mutex: Struct.f, Struct.g
			rest = strings.TrimPrefix(strings.TrimSpace(rest), "by")
			c := strings.Index(rest, ":")
			if c < 0 {
				return nil, fail(l, "protected by X.mu: fields")
			}
			path := strings.TrimSpace(rest[:c])
			found := false
			for _, lk := range sf.Locks {
				if lk.Struct+"."+lk.Mutex == path {
					for _, m := range strings.Split(rest[c+1:], ",") {
						lk.Protected = append(lk.Protected, strings.TrimSpace(m))
					}
					found = true
				}
			}
			if !found {
				return nil, fail(l, "protected by unknown lockinv %s", path)
			}
		case "chaninv", "atomic":
			// chaninv Key(msg[, extra...]): expr      atomic Struct.field(old,new): expr
			// (the key itself may contain parentheses: (*Exchange).Head.headerRespCh)
			// an `atomic` declaration may be restricted to properties: atomic [C17] Struct.field(old,new): expr
			var declTags []string
			if strings.HasPrefix(rest, "[") {
				if k := strings.Index(rest, "]"); k > 0 {
					for _, t := range strings.Split(rest[1:k], ",") {
						declTags = append(declTags, strings.TrimSpace(t))
					}
					rest = strings.TrimSpace(rest[k+1:])
				}
			}
			c := strings.Index(rest, "):")
			op := -1
			if c >= 0 {
				op = strings.LastIndex(rest[:c], "(")
			}
			if c < 0 || op < 0 {
				return nil, fail(l, "%s Key(var): expr", kw)
			}
			e, err := parseExprString(strings.TrimSpace(rest[c+2:]))
			if err != nil {
				return nil, fail(l, "%v", err)
			}
			var ps []string
			for _, x := range strings.Split(rest[op+1:c], ",") {
				ps = append(ps, strings.TrimSpace(x))
			}
			ci := &ChanInv{Pkg: pkg, Key: strings.TrimSpace(rest[:op]), Var: ps[0], Params: ps,
				Inv: Clause{Expr: e, Src: rest[c+2:], File: base, Line: l.line}, Tags: declTags}
			if kw == "chaninv" {
				sf.Chans = append(sf.Chans, ci)
			} else {
				sf.Atomics = append(sf.Atomics, ci)
			}
		default:
			return nil, fail(l, "unknown keyword %q", kw)
		}
	}
	return sf, nil
}

func splitTopLevelCommas(s string) []string {
	var out []string
	depth := 0
	start := 0
	for i := 0; i < len(s); i++ {
		switch s[i] {
		case '(', '[':
			depth++
		case ')', ']':
			depth--
		case ',':
			if depth == 0 {
				out = append(out, strings.TrimSpace(s[start:i]))
				start = i + 1
			}
		}
	}
	out = append(out, strings.TrimSpace(s[start:]))
	return out
}

func splitKw(s string) (string, string) {
	k := strings.IndexAny(s, " \t")
	if k < 0 {
		return strings.TrimSuffix(s, ":"), ""
	}
	return strings.TrimSuffix(s[:k], ":"), strings.TrimSpace(s[k:])
}

// parseHeader parses "name(a, b, c)" where name may contain (*T).m or T.m.
func parseHeader(s string) (string, []string, error) {
	cp := strings.LastIndex(s, ")")
	if cp != len(s)-1 {
		return "", nil, fmt.Errorf("bad header %q", s)
	}
	// find matching open paren for the last ')'
	d := 0
	op := -1
	for i := len(s) - 1; i >= 0; i-- {
		if s[i] == ')' {
			d++
		} else if s[i] == '(' {
			d--
			if d == 0 {
				op = i
				break
			}
		}
	}
	if op < 0 {
		return "", nil, fmt.Errorf("bad header %q", s)
	}
	var params []string
	for _, p := range strings.Split(s[op+1:cp], ",") {
		p = strings.TrimSpace(p)
		if p != "" {
			params = append(params, p)
		}
	}
	return strings.TrimSpace(s[:op]), params, nil
}

// splitTagsName handles "[C01,C02] name: expr" (both parts optional).
func splitTagsName(s string) ([]string, string, string) {
	var tags []string
	s = strings.TrimSpace(s)
	if strings.HasPrefix(s, "[") {
		if k := strings.Index(s, "]"); k > 0 {
			for _, t := range strings.Split(s[1:k], ",") {
				tags = append(tags, strings.TrimSpace(t))
			}
			s = strings.TrimSpace(s[k+1:])
		}
	}
	name := ""
	// name: must be an identifier followed by ':' (not '::')
	for i := 0; i < len(s); i++ {
		c := s[i]
		if unicode.IsLetter(rune(c)) || unicode.IsDigit(rune(c)) || c == '_' || c == '-' || c == '.' {
			continue
		}
		if c == ':' && i > 0 && (i+1 >= len(s) || s[i+1] != ':') {
			name = s[:i]
			s = strings.TrimSpace(s[i+1:])
		}
		break
	}
	return tags, name, s
}
