package main

import (
	"fmt"
	"go/constant"
	"go/types"
	"sort"
	"strings"

	"golang.org/x/tools/go/ssa"
)

// SV is a spec-level value: an executor value plus its Go type (may be nil for pure spec values).
type SV struct {
	V  Val
	GT types.Type
}

type specEnv struct {
	names   map[string]SV
	fr      *Frame // frame whose locals may be referenced by name (nil: none)
	pkg     string
	results []SV
	resNames []string
	parent  *specEnv
	calleeFn *ssa.Function // set when a callee's contract is evaluated at a call site
}

func newSpecEnv(pkg string) *specEnv { return &specEnv{names: map[string]SV{}, pkg: pkg} }

func (e *specEnv) bind(name string, v Val, t types.Type) { e.names[name] = SV{v, t} }
func (e *specEnv) bindFreeVar(name string, ptr Val, ptrType types.Type) {
	e.names["&"+name] = SV{ptr, ptrType}
}

func (e *specEnv) setResults(res Val) {
	if res == nil {
		return
	}
	if tv, ok := res.(*TupleVal); ok {
		for i, v := range tv.Elems {
			var t types.Type
			if i < len(e.results) {
				t = e.results[i].GT
			}
			e.names[fmt.Sprintf("result%d", i)] = SV{v, t}
			if i < len(e.resNames) && e.resNames[i] != "" && e.resNames[i] != "_" {
				if _, taken := e.names[e.resNames[i]]; !taken {
					e.names[e.resNames[i]] = SV{v, t}
				}
			}
		}
		if len(tv.Elems) > 0 {
			e.names["result"] = e.names["result0"]
		}
		return
	}
	var t types.Type
	if len(e.results) > 0 {
		t = e.results[0].GT
	}
	e.names["result"] = SV{res, t}
	e.names["result0"] = SV{res, t}
	if len(e.resNames) > 0 && e.resNames[0] != "" && e.resNames[0] != "_" {
		if _, taken := e.names[e.resNames[0]]; !taken {
			e.names[e.resNames[0]] = SV{res, t}
		}
	}
}

// calleeEnv binds contract parameter names to argument values.
func (fc *FnCtx) calleeEnv(spec *FuncSpec, callee *ssa.Function, sig *types.Signature, args []Val) *specEnv {
	env := newSpecEnv(spec.Pkg)
	env.calleeFn = callee
	var ptypes []types.Type
	var pnames []string
	if callee != nil {
		for _, p := range callee.Params {
			ptypes = append(ptypes, p.Type())
			pnames = append(pnames, p.Name())
		}
	} else if sig != nil {
		if len(args) == sig.Params().Len()+1 {
			var rt types.Type
			if sig.Recv() != nil {
				rt = sig.Recv().Type()
			}
			ptypes = append(ptypes, rt)
			pnames = append(pnames, "recv")
		}
		for i := 0; i < sig.Params().Len(); i++ {
			ptypes = append(ptypes, sig.Params().At(i).Type())
			pnames = append(pnames, sig.Params().At(i).Name())
		}
	}
	names := spec.Params
	if len(names) == 0 {
		names = pnames
	}
	for i, n := range names {
		if i < len(args) {
			var t types.Type
			if i < len(ptypes) {
				t = ptypes[i]
			}
			env.bind(n, args[i], t)
			env.bind(fmt.Sprintf("$%d", i), args[i], t)
		}
	}
	if sig != nil {
		for i := 0; i < sig.Results().Len(); i++ {
			env.results = append(env.results, SV{nil, sig.Results().At(i).Type()})
			env.resNames = append(env.resNames, sig.Results().At(i).Name())
		}
	}
	return env
}

// frameEnv resolves identifiers as locals of the frame's function.
func (fc *FnCtx) frameEnv(fr *Frame, st *State) *specEnv {
	env := newSpecEnv(shortPkgOfFn(fr.fn))
	env.fr = fr
	return env
}

func shortPkgOfFn(fn *ssa.Function) string {
	for fn.Parent() != nil {
		fn = fn.Parent()
	}
	if o := fn.Origin(); o != nil {
		fn = o
	}
	if fn.Pkg != nil {
		return shortPkg(fn.Pkg.Pkg.Path())
	}
	if fn.Object() != nil && fn.Object().Pkg() != nil {
		return shortPkg(fn.Object().Pkg().Path())
	}
	return ""
}

const (
	specEnvLoop = iota
	specEnvPost
)

// evalClause evaluates a clause in the context of the frame (loop invariants etc.): identifiers are
// current locals; old(x) for parameters means the entry value.
func (fc *FnCtx) evalClause(fr *Frame, st *State, entry *State, c Clause, mode int) Term {
	env := fc.frameEnv(fr, st)
	return fc.evalClauseEnv(st, entry, c, env)
}

func (fc *FnCtx) evalClauseEnv(st *State, old *State, c Clause, env *specEnv) Term {
	ev := &evaluator{fc: fc, st: st, old: old, env: env, clause: &c}
	return ev.evalBool(c.Expr)
}

type evaluator struct {
	fc     *FnCtx
	st     *State
	old    *State
	env    *specEnv
	bound  []map[string]SV
	clause *Clause
	reads  map[string]bool
	inOld  bool
}

func (ev *evaluator) fail(f string, a ...any) {
	loc := ""
	if ev.clause != nil {
		loc = fmt.Sprintf("%s:%d: ", ev.clause.File, ev.clause.Line)
	}
	panic(bindError{loc + fmt.Sprintf(f, a...)})
}

type bindError struct{ msg string }

func (ev *evaluator) evalBool(e Expr) Term {
	sv := ev.eval(e)
	t, ok := sv.V.(Term)
	if !ok || t.Sort != SBool {
		ev.fail("expression is not boolean: %v", describeExpr(e))
	}
	return t
}

func (ev *evaluator) evalTerm(e Expr) (Term, types.Type) {
	sv := ev.eval(e)
	switch v := sv.V.(type) {
	case Term:
		return v, sv.GT
	case *PtrVal:
		if v.Kind == PSnap {
			return tIte(v.IsNil, intLit(0), intLit(1)), sv.GT
		}
	}
	ev.fail("expression %s does not denote a term (%T)", describeExpr(e), sv.V)
	return Term{}, nil
}

func describeExpr(e Expr) string {
	switch x := e.(type) {
	case *EIdent:
		return x.Name
	case *EInt:
		return x.Val
	case *ESel:
		return describeExpr(x.X) + "." + x.Sel
	case *ECall:
		return describeExpr(x.Fun) + "(...)"
	case *EBinary:
		return "(" + describeExpr(x.X) + " " + x.Op + " " + describeExpr(x.Y) + ")"
	case *EUnary:
		return x.Op + describeExpr(x.X)
	case *EIndex:
		return describeExpr(x.X) + "[" + describeExpr(x.I) + "]"
	case *EOld:
		return "old(" + describeExpr(x.X) + ")"
	case *EQuant:
		return "quantifier"
	}
	return fmt.Sprintf("%T", e)
}

func (ev *evaluator) curState() *State {
	if ev.inOld {
		return ev.old
	}
	return ev.st
}

func (ev *evaluator) heap(name, elemSort string) Term {
	if ev.reads != nil {
		ev.reads[name] = true
	}
	return ev.fc.heap(ev.curState(), name, elemSort)
}

func (ev *evaluator) heapRaw(name, full string) Term {
	if ev.reads != nil {
		ev.reads[name] = true
	}
	return ev.fc.heapRaw(ev.curState(), name, full)
}

func specSort(tn string) string {
	switch tn {
	case "int", "uint64", "int64", "uint", "Time", "Duration", "Ref", "uint32", "int32", "time.Time", "time.Duration":
		return SInt
	case "bool":
		return SBool
	case "H", "Hdr":
		return SHdr
	case "error", "Err":
		return SErr
	case "string", "Str":
		return SStr
	case "Hash", "Bytes", "[]byte", "header.Hash":
		return SBytes
	case "Slice":
		return SSlice
	case "Key", "datastore.Key":
		return SKey
	}
	if strings.HasPrefix(tn, "[]") {
		return SSlice
	}
	// ghost collections: Set<K> = (Array K Bool), Map<K,V> = (Array K V)
	if strings.HasPrefix(tn, "Set<") && strings.HasSuffix(tn, ">") {
		return arrSort(specSort(tn[4:len(tn)-1]), SBool)
	}
	if strings.HasPrefix(tn, "Map<") && strings.HasSuffix(tn, ">") {
		if k := strings.Index(tn, ","); k > 0 {
			return arrSort(specSort(tn[4:k]), specSort(tn[k+1:len(tn)-1]))
		}
	}
	return SInt
}

func (ev *evaluator) specType(tn string) types.Type {
	switch tn {
	case "int":
		return types.Typ[types.Int]
	case "uint64":
		return types.Typ[types.Uint64]
	case "int64", "Duration", "Time":
		return nil
	case "bool":
		return types.Typ[types.Bool]
	case "string":
		return types.Typ[types.String]
	}
	base := strings.TrimLeft(tn, "*")
	if t := ev.fc.eng.lookupNamedType(ev.env.pkg, base); t != nil {
		if strings.HasPrefix(tn, "*") {
			return types.NewPointer(t)
		}
		return t
	}
	return nil
}

func (ev *evaluator) lookupBound(name string) (SV, bool) {
	for i := len(ev.bound) - 1; i >= 0; i-- {
		if sv, ok := ev.bound[i][name]; ok {
			return sv, true
		}
	}
	return SV{}, false
}

// localByName finds the current value of a local variable (or parameter copy) of the frame function.
func (ev *evaluator) localByName(name string) (SV, bool) {
	fr := ev.env.fr
	if fr == nil {
		return SV{}, false
	}
	want := name
	ord := 0
	if i := strings.Index(name, "#"); i >= 0 {
		want = name[:i]
		fmt.Sscanf(name[i+1:], "%d", &ord)
	}
	// old() only affects heap reads, ghost state and parameters (entry values); other locals keep
	// their current value (as in Dafny).
	st := ev.st
	n := 0
	for _, l := range fr.fn.Locals {
		if l.Comment == want {
			if n == ord {
				elem := l.Type().(*types.Pointer).Elem()
				if ev.inOld {
					// old value of a parameter: entry value
					for _, p := range fr.fn.Params {
						if p.Name() == want {
							return SV{ev.fc.value(fr, ev.old, p), p.Type()}, true
						}
					}
				}
				key := cellKey{fr.id, l}
				if v, ok := st.cells[key]; ok {
					return SV{v, elem}, true
				}
				if pv, ok := fr.env[l]; ok {
					// struct-typed local: reference
					return SV{pv, elem}, true
				}
				// not yet allocated on this path: zero value
				return SV{ev.fc.zeroValue(st, elem), elem}, true
			}
			n++
		}
	}
	// heap-allocated locals (escaping) are ssa.Alloc instructions not in Locals
	for _, b := range fr.fn.Blocks {
		for _, instr := range b.Instrs {
			if a, ok := instr.(*ssa.Alloc); ok && a.Heap && a.Comment == want {
				if n == ord {
					elem := a.Type().(*types.Pointer).Elem()
					if ev.inOld {
						for _, p := range fr.fn.Params {
							if p.Name() == want {
								return SV{ev.fc.value(fr, ev.old, p), p.Type()}, true
							}
						}
					}
					key := cellKey{fr.id, a}
					if v, ok := st.cells[key]; ok {
						return SV{v, elem}, true
					}
					if pv, ok := fr.env[a]; ok {
						return SV{pv, elem}, true
					}
					return SV{ev.fc.zeroValue(st, elem), elem}, true
				}
				n++
			}
		}
	}
	for _, p := range fr.fn.Params {
		if p.Name() == want {
			return SV{ev.fc.value(fr, st, p), p.Type()}, true
		}
	}
	for _, fv := range fr.fn.FreeVars {
		if fv.Name() == want {
			ptr := ev.fc.value(fr, st, fv)
			elem := fv.Type().(*types.Pointer).Elem()
			if _, isS := isStructVal(elem); isS && namedPath(elem) != "time.Time" {
				return SV{ptr, elem}, true // captured struct variable: the object itself
			}
			return SV{ev.fc.load(st, ptr, elem, nil), elem}, true
		}
	}
	return SV{}, false
}

func (ev *evaluator) ident(name string) SV {
	if sv, ok := ev.lookupBound(name); ok {
		return sv
	}
	for e := ev.env; e != nil; e = e.parent {
		if sv, ok := e.names[name]; ok {
			return sv
		}
	}
	if sv, ok := ev.localByName(name); ok {
		return sv
	}
	if ev.env.calleeFn == nil {
		if t, ok := ev.fc.ghostNames[name]; ok {
			return SV{t, nil}
		}
	}
	switch name {
	case "true":
		return SV{tTrue, types.Typ[types.Bool]}
	case "false":
		return SV{tFalse, types.Typ[types.Bool]}
	case "now":
		return SV{ev.fc.nowTerm(ev.curState()), nil}
	case "allocTop":
		return SV{ev.fc.allocTop(ev.curState()), nil}
	case "MaxUint64":
		return SV{bigLit("18446744073709551615"), nil}
	case "MaxInt64":
		return SV{bigLit(max64s), nil}
	case "MinInt64":
		return SV{bigLit(min64s), nil}
	case "emptyStr":
		return SV{T(SStr, "emptyStr"), types.Typ[types.String]}
	case "emptyKeySet":
		return SV{T(arrSort(SKey, SBool), "((as const (Array Key Bool)) false)"), nil}
	case "emptyStrSet":
		return SV{T(arrSort(SStr, SBool), "((as const (Array Str Bool)) false)"), nil}
	case "emptyIntSet":
		return SV{T(arrSort(SInt, SBool), "((as const (Array Int Bool)) false)"), nil}
	case "zeroHdr":
		return SV{T(SHdr, "zeroHdr"), nil}
	case "ctxBackground":
		// the value context.Background() returns (a context that is never cancelled)
		return SV{ev.fc.decls.constant("ctxBackground", SInt), nil}
	case "panicking":
		p, ok := ev.curState().cells[keyPanicking].(Term)
		if !ok {
			p = tFalse
		}
		return SV{p, nil}
	}
	if g, ok := ev.fc.eng.ghosts[name]; ok {
		key := cellKey{0, name}
		st := ev.curState()
		if v, ok := st.cells[key]; ok {
			return SV{v, ev.specType(g.Type)}
		}
		c := ev.fc.decls.constant("ghost_"+sanitize(name)+"_0", specSort(g.Type))
		st.cells[key] = c
		return SV{c, ev.specType(g.Type)}
	}
	// package-level objects of the current package
	if sv, ok := ev.pkgObject(ev.env.pkg, name); ok {
		return sv
	}
	ev.fail("unknown identifier %q", name)
	return SV{}
}

func (ev *evaluator) pkgObject(pkg, name string) (SV, bool) {
	tp := ev.fc.eng.tpkgs[pkg]
	if tp == nil {
		return SV{}, false
	}
	obj := tp.Scope().Lookup(name)
	if obj == nil {
		return SV{}, false
	}
	switch o := obj.(type) {
	case *types.Const:
		if o.Val().Kind() == constant.Int {
			return SV{bigLit(o.Val().ExactString()), o.Type()}, true
		}
		if o.Val().Kind() == constant.Bool {
			if constant.BoolVal(o.Val()) {
				return SV{tTrue, o.Type()}, true
			}
			return SV{tFalse, o.Type()}, true
		}
	case *types.Var:
		key := tp.Path() + "." + name
		if c, ok := ev.fc.eng.sentinelOf[key]; ok {
			ev.fc.declareSentinels()
			return SV{T(SErr, c), o.Type()}, true
		}
		sp := ev.fc.eng.pkgs[pkg]
		if sp != nil {
			if g, ok := sp.Members[name].(*ssa.Global); ok {
				st := ev.curState()
				ck := cellKey{0, g}
				if v, ok := st.cells[ck]; ok {
					return SV{v, o.Type()}, true
				}
				v := ev.fc.globalInit(st, g)
				st.cells[ck] = v
				return SV{v, o.Type()}, true
			}
		}
	}
	return SV{}, false
}

func (ev *evaluator) eval(e Expr) SV {
	switch x := e.(type) {
	case *EIdent:
		if x.Name == "nil" {
			return SV{nil, nil}
		}
		return ev.ident(x.Name)
	case *EInt:
		return SV{bigLit(x.Val), nil}
	case *EStr:
		if x.Val == "" {
			return SV{T(SStr, "emptyStr"), types.Typ[types.String]}
		}
		return SV{ev.fc.strLit(x.Val), types.Typ[types.String]}
	case *EOld:
		saved := ev.inOld
		ev.inOld = true
		r := ev.eval(x.X)
		ev.inOld = saved
		return r
	case *EUnary:
		switch x.Op {
		case "!":
			return SV{tNot(ev.evalBool(x.X)), types.Typ[types.Bool]}
		case "-":
			t, _ := ev.evalTerm(x.X)
			return SV{app(SInt, "-", t), nil}
		}
	case *EBinary:
		return ev.evalBinary(x)
	case *EQuant:
		return ev.evalQuant(x)
	case *ESel:
		return ev.evalSel(x)
	case *EIndex:
		return ev.evalIndex(x)
	case *ECall:
		return ev.evalCall(x)
	}
	ev.fail("unsupported expression %T", e)
	return SV{}
}

func nilOfSort(sort string) Term {
	switch sort {
	case SKey:
		return T(SKey, "emptyKey")
	case SErr:
		return T(SErr, "nilErr")
	case SBytes:
		return T(SBytes, "nilBytes")
	case SSlice:
		return nilSlice
	case SHdr:
		return T(SHdr, "zeroHdr")
	case SStr:
		return T(SStr, "emptyStr")
	}
	return intLit(0)
}

func (ev *evaluator) evalBinary(x *EBinary) SV {
	boolT := types.Typ[types.Bool]
	switch x.Op {
	case "&&":
		return SV{tAnd(ev.evalBool(x.X), ev.evalBool(x.Y)), boolT}
	case "||":
		return SV{tOr(ev.evalBool(x.X), ev.evalBool(x.Y)), boolT}
	case "==>":
		return SV{tImp(ev.evalBool(x.X), ev.evalBool(x.Y)), boolT}
	case "<==>":
		return SV{tEq(ev.evalBool(x.X), ev.evalBool(x.Y)), boolT}
	case "==", "!=":
		l := ev.eval(x.X)
		r := ev.eval(x.Y)
		var t Term
		switch {
		case l.V == nil && r.V == nil:
			t = tTrue
		case r.V == nil:
			t = ev.isNil(l)
		case l.V == nil:
			t = ev.isNil(r)
		default:
			lt, lok := l.V.(Term)
			rt, rok := r.V.(Term)
			if !lok || !rok {
				ev.fail("cannot compare %s and %s", describeExpr(x.X), describeExpr(x.Y))
			}
			if lt.Sort != rt.Sort {
				ev.fail("comparison of different sorts %s vs %s in %s", lt.Sort, rt.Sort, describeExpr(x))
			}
			t = tEq(lt, rt)
		}
		if x.Op == "!=" {
			t = tNot(t)
		}
		return SV{t, boolT}
	case "<", "<=", ">", ">=":
		l, _ := ev.evalTerm(x.X)
		r, _ := ev.evalTerm(x.Y)
		return SV{app(SBool, x.Op, l, r), boolT}
	case "+", "-", "*":
		l, lt := ev.evalTerm(x.X)
		r, _ := ev.evalTerm(x.Y)
		_ = lt
		return SV{app(SInt, x.Op, l, r), nil}
	case "/":
		l, _ := ev.evalTerm(x.X)
		r, _ := ev.evalTerm(x.Y)
		return SV{goDiv(l, r), nil}
	case "%":
		l, _ := ev.evalTerm(x.X)
		r, _ := ev.evalTerm(x.Y)
		return SV{goRem(l, r), nil}
	}
	ev.fail("unsupported operator %s", x.Op)
	return SV{}
}

func (ev *evaluator) isNil(sv SV) Term {
	switch v := sv.V.(type) {
	case Term:
		return tEq(v, nilOfSort(v.Sort))
	case *PtrVal:
		if v.Kind == PSnap {
			return v.IsNil
		}
		return tFalse
	case *ClosureVal:
		return tFalse
	case *AnyVal:
		return tFalse
	}
	ev.fail("cannot compare value of kind %T with nil", sv.V)
	return Term{}
}

func (ev *evaluator) evalQuant(x *EQuant) SV {
	scope := map[string]SV{}
	var decl []string
	var guards []Term
	for _, v := range x.Vars {
		ev.fc.nfresh++
		name := fmt.Sprintf("q_%s_%d", sanitize(v.Name), ev.fc.nfresh)
		srt := specSort(v.Type)
		decl = append(decl, fmt.Sprintf("(%s %s)", name, srt))
		gt := ev.specType(v.Type)
		scope[v.Name] = SV{T(srt, name), gt}
		if gt != nil {
			if f := rangeFact(T(srt, name), gt); f.S != "true" {
				guards = append(guards, f)
			}
		}
	}
	ev.bound = append(ev.bound, scope)
	body := ev.evalBool(x.Body)
	var pats []string
	var altPats []string // completed alternative patterns
	for _, tr := range x.Triggers {
		if tr == nil {
			altPats = append(altPats, ":pattern ("+strings.Join(pats, " ")+")")
			pats = nil
			continue
		}
		sv := ev.eval(tr)
		if tt, ok := sv.V.(Term); ok {
			pats = append(pats, tt.S)
		} else {
			ev.fail("trigger is not a term")
		}
	}
	ev.bound = ev.bound[:len(ev.bound)-1]
	q := "forall"
	if x.Forall {
		body = tImp(tAnd(guards...), body)
	} else {
		q = "exists"
		body = tAnd(append(guards, body)...)
	}
	if len(pats) > 0 {
		altPats = append(altPats, ":pattern ("+strings.Join(pats, " ")+")")
		return SV{T(SBool, fmt.Sprintf("(%s (%s) (! %s %s))", q, strings.Join(decl, " "), body.S, strings.Join(altPats, " "))), types.Typ[types.Bool]}
	}
	return SV{T(SBool, fmt.Sprintf("(%s (%s) %s)", q, strings.Join(decl, " "), body.S)), types.Typ[types.Bool]}
}

func (ev *evaluator) evalSel(x *ESel) SV {
	// package-qualified identifier?
	if id, ok := x.X.(*EIdent); ok {
		if _, isBound := ev.lookupBound(id.Name); !isBound {
			if _, isName := ev.env.names[id.Name]; !isName {
				if _, isLocal := ev.localByName(id.Name); !isLocal {
					if _, isPkg := ev.fc.eng.tpkgs[id.Name]; isPkg {
						if sv, ok := ev.pkgObject(id.Name, x.Sel); ok {
							return sv
						}
						ev.fail("unknown package object %s.%s", id.Name, x.Sel)
					}
				}
			}
		}
	}
	base := ev.eval(x.X)
	return ev.selectField(base, x.Sel, x)
}

func (ev *evaluator) selectField(base SV, sel string, x Expr) SV {
	if base.GT == nil {
		ev.fail("cannot select .%s: static type of %s unknown", sel, describeExpr(x))
	}
	// dereference snapshot pointers
	if pv, ok := base.V.(*PtrVal); ok && pv.Kind == PSnap {
		if pt, ok := unalias(base.GT).Underlying().(*types.Pointer); ok {
			base = SV{pv.V, pt.Elem()}
		}
	}
	n, s := structOf(base.GT)
	if s == nil {
		ev.fail("cannot select .%s on non-struct type %s", sel, describeType(base.GT))
	}
	obj, ok := base.V.(Term)
	if !ok {
		ev.fail("cannot select .%s on value of kind %T", sel, base.V)
	}
	for i := 0; i < s.NumFields(); i++ {
		f := s.Field(i)
		if f.Name() != sel {
			continue
		}
		hn := structHeapName(n, f.Name())
		if _, nested := isNestedStructField(f.Type()); nested {
			inner := tSelect(ev.heap(hn, SInt), obj)
			// nested structs of different fields / owners are different objects (same facts the executor
			// adds when the code takes the field's address)
			ev.fc.nestedFact(ev.curState(), inner, obj, hn)
			return SV{inner, f.Type()}
		}
		ft := f.Type()
		// instantiate field types of generic structs: type parameters map to Hdr anyway
		v := tSelect(ev.heap(hn, sortOf(ft)), obj)
		if len(ev.bound) == 0 {
			// heap values are well-typed (same fact the executor assumes on every load)
			ev.fc.assume(ev.curState(), ev.fc.typeFact(ev.curState(), v, ft))
		}
		return SV{v, ft}
	}
	// promoted fields through embedded structs
	for i := 0; i < s.NumFields(); i++ {
		f := s.Field(i)
		if f.Embedded() {
			// embedded pointer to a struct: follow the pointer
			if _, isPS := isStructPtr(f.Type()); isPS {
				inner := SV{tSelect(ev.heap(structHeapName(n, f.Name()), SInt), obj), f.Type()}
				if _, es := structOf(f.Type()); es != nil {
					for j := 0; j < es.NumFields(); j++ {
						if es.Field(j).Name() == sel {
							return ev.selectField(inner, sel, x)
						}
					}
				}
			}
			if _, nested := isNestedStructField(f.Type()); nested {
				inner := SV{tSelect(ev.heap(structHeapName(n, f.Name()), SInt), obj), f.Type()}
				if _, es := structOf(f.Type()); es != nil {
					for j := 0; j < es.NumFields(); j++ {
						if es.Field(j).Name() == sel {
							return ev.selectField(inner, sel, x)
						}
					}
				}
			}
		}
	}
	ev.fail("struct %s has no field %s", n.Obj().Name(), sel)
	return SV{}
}

func (ev *evaluator) evalIndex(x *EIndex) SV {
	base := ev.eval(x.X)
	switch bv := base.V.(type) {
	case Term:
		if strings.HasPrefix(bv.Sort, "(Array ") {
			// ghost collection (Set<K> / Map<K,V>)
			k := ev.eval(x.I)
			var kt Term
			if k.V == nil {
				kt = nilOfSort(idxSortOfArray(bv.Sort))
			} else {
				kt, _ = k.V.(Term)
			}
			if kt.Sort != idxSortOfArray(bv.Sort) {
				ev.fail("index of sort %s into %s", kt.Sort, bv.Sort)
			}
			return SV{tSelect(bv, kt), nil}
		}
		if bv.Sort == SSlice {
			idx, _ := ev.evalTerm(x.I)
			var et types.Type
			es := SInt
			if base.GT != nil {
				if st, ok := unalias(base.GT).Underlying().(*types.Slice); ok {
					et = st.Elem()
					es = sortOf(et)
				}
			}
			h := ev.heapRaw(elemHeapName(es), arrSort(SInt, arrSort(SInt, es)))
			return SV{tSelect(tSelect(h, slArr(bv)), tIx(slOff(bv), idx)), et}
		}
		if base.GT != nil {
			if mt, ok := unalias(base.GT).Underlying().(*types.Map); ok {
				k, _ := ev.evalTerm(x.I)
				_, valN := mapHeapNames(mt)
				h := ev.heapRaw(valN, arrSort(SInt, arrSort(sortOf(mt.Key()), sortOf(mt.Elem()))))
				return SV{tSelect(tSelect(h, bv), k), mt.Elem()}
			}
		}
	case *ArrVal:
		if lit, ok := x.I.(*EInt); ok {
			var i int
			fmt.Sscanf(lit.Val, "%d", &i)
			if i < len(bv.Elems) {
				return SV{bv.Elems[i], nil}
			}
		}
	}
	ev.fail("cannot index %s", describeExpr(x.X))
	return SV{}
}

func (ev *evaluator) evalCall(x *ECall) SV {
	boolT := types.Typ[types.Bool]
	// method-style calls
	if sel, ok := x.Fun.(*ESel); ok {
		if id, ok := sel.X.(*EIdent); ok && id.Name == "errors" && sel.Sel == "Is" && len(x.Args) == 2 {
			e, _ := ev.evalTerm(x.Args[0])
			s, _ := ev.evalTerm(x.Args[1])
			ev.fc.declareSentinels()
			return SV{tOr(tEq(e, s), app(SBool, "errIs", e, s)), boolT}
		}
		if id, ok := sel.X.(*EIdent); ok && id.Name == "bytes" && sel.Sel == "Equal" && len(x.Args) == 2 {
			a, _ := ev.evalTerm(x.Args[0])
			b, _ := ev.evalTerm(x.Args[1])
			return SV{tEq(a, b), boolT}
		}
		recv := ev.eval(sel.X)
		if rt, ok := recv.V.(Term); ok && rt.Sort == SHdr && len(x.Args) == 0 {
			switch sel.Sel {
			case "Height":
				return SV{app(SInt, "height", rt), types.Typ[types.Uint64]}
			case "Time":
				return SV{app(SInt, "htime", rt), nil}
			case "ChainID":
				return SV{app(SStr, "chainID", rt), types.Typ[types.String]}
			case "Hash":
				return SV{app(SBytes, "hash", rt), nil}
			case "LastHeader":
				return SV{app(SBytes, "lastHash", rt), nil}
			case "IsZero":
				return SV{app(SBool, "isZero", rt), boolT}
			}
		}
		if rt, ok := recv.V.(Term); ok && rt.Sort == SBytes && sel.Sel == "String" {
			return SV{app(SStr, "hexStr", rt), types.Typ[types.String]}
		}
		ev.fail("unsupported method call %s.%s() on %T %v", describeExpr(sel.X), sel.Sel, recv.V, recv.V)
	}
	id, ok := x.Fun.(*EIdent)
	if !ok {
		ev.fail("unsupported call expression")
	}
	switch id.Name {
	case "len", "cap":
		a := ev.eval(x.Args[0])
		switch v := a.V.(type) {
		case Term:
			switch v.Sort {
			case SSlice:
				if id.Name == "cap" {
					return SV{slCap(v), types.Typ[types.Int]}
				}
				return SV{slLen(v), types.Typ[types.Int]}
			case SBytes:
				return SV{app(SInt, "blen", v), types.Typ[types.Int]}
			case SStr:
				return SV{app(SInt, "slen", v), types.Typ[types.Int]}
			}
		case *ArrVal:
			return SV{intLit(int64(len(v.Elems))), types.Typ[types.Int]}
		}
		ev.fail("len of unsupported value")
	case "asVerr":
		e, _ := ev.evalTerm(x.Args[0])
		ev.fc.declareSentinels()
		vt := ev.fc.eng.lookupNamedType("header", "VerifyError")
		return SV{app(SInt, "as_header.VerifyError", e), types.NewPointer(vt)}
	case "asNonAdj":
		e, _ := ev.evalTerm(x.Args[0])
		ev.fc.declareSentinels()
		vt := ev.fc.eng.lookupNamedType("sync", "errNonAdjacent")
		return SV{app(SInt, "as_sync.errNonAdjacent", e), types.NewPointer(vt)}
	case "ite":
		c := ev.evalBool(x.Args[0])
		a := ev.eval(x.Args[1])
		b := ev.eval(x.Args[2])
		at, aok := a.V.(Term)
		bt, bok := b.V.(Term)
		if a.V == nil && bok {
			at, aok = nilOfSort(bt.Sort), true
		}
		if b.V == nil && aok {
			bt, bok = nilOfSort(at.Sort), true
		}
		if !aok || !bok {
			ev.fail("ite over non-terms")
		}
		gt := a.GT
		if gt == nil {
			gt = b.GT
		}
		return SV{tIte(c, at, bt), gt}
	case "has":
		m := ev.eval(x.Args[0])
		k, _ := ev.evalTerm(x.Args[1])
		mt, ok := unalias(m.GT).Underlying().(*types.Map)
		if !ok {
			ev.fail("has() on non-map")
		}
		hasN, _ := mapHeapNames(mt)
		h := ev.heapRaw(hasN, arrSort(SInt, arrSort(sortOf(mt.Key()), SBool)))
		return SV{tSelect(tSelect(h, m.V.(Term)), k), boolT}
	case "u64":
		t, _ := ev.evalTerm(x.Args[0])
		return SV{wrapMod(t, types.Typ[types.Uint64]), types.Typ[types.Uint64]}
	case "i64":
		t, _ := ev.evalTerm(x.Args[0])
		return SV{wrapMod(t, types.Typ[types.Int64]), types.Typ[types.Int64]}
	case "hexStr":
		t, _ := ev.evalTerm(x.Args[0])
		return SV{app(SStr, "hexStr", t), types.Typ[types.String]}
	case "foldEq":
		a, _ := ev.evalTerm(x.Args[0])
		b, _ := ev.evalTerm(x.Args[1])
		return SV{app(SBool, "foldEq", a, b), boolT}
	case "sent", "closed", "recvd":
		key := ""
		switch a := x.Args[0].(type) {
		case *EStr:
			key = a.Val
		default:
			key = describeExpr(a)
		}
		// counters are keyed exactly as the chaninv declaration names the channel ("Struct.field",
		// "(*T).method.local")
		ck := cellKey{0, id.Name + ":" + key}
		if v, ok := ev.curState().cells[ck].(Term); ok {
			return SV{v, types.Typ[types.Int]}
		}
		return SV{intLit(0), types.Typ[types.Int]}
	case "sawEmpty":
		// sawEmpty("Struct.field"): the function's latest observation of the channel is "empty" (default
		// branch of a non-blocking select over it, no successful receive since)
		key := ""
		switch a := x.Args[0].(type) {
		case *EStr:
			key = a.Val
		default:
			key = describeExpr(a)
		}
		if v, ok := ev.curState().cells[cellKey{0, "sawempty:" + key}].(Term); ok {
			return SV{v, boolT}
		}
		return SV{tFalse, boolT}
	case "ctxDone":
		// ctxDone(c): has the function observed context c as done (received from c.Done(), or saw c.Err() != nil)
		c, _ := ev.evalTerm(x.Args[0])
		// the flags are keyed by the term the code used for the context: compare semantically
		var alts []Term
		var keys []string
		for ck := range ev.curState().cells {
			if s, ok := ck.v.(string); ok && ck.frame == 0 && strings.HasPrefix(s, "ctxdone:") {
				keys = append(keys, s)
			}
		}
		sort.Strings(keys)
		for _, s := range keys {
			if v, ok := ev.curState().cells[cellKey{0, s}].(Term); ok {
				alts = append(alts, tAnd(tEq(T(SInt, strings.TrimPrefix(s, "ctxdone:")), c), v))
			}
		}
		if len(alts) == 0 {
			return SV{tFalse, boolT}
		}
		return SV{tOr(alts...), boolT}
	case "visited":
		// visited(k [, n]): has key k been produced by the n-th (default: only) `range` over a map of the
		// function under verification (ghost set maintained by the map-iteration model)
		k, _ := ev.evalTerm(x.Args[0])
		var names []string
		for ck := range ev.curState().cells {
			if s, ok := ck.v.(string); ok && strings.HasPrefix(s, "visited:") {
				names = append(names, s)
			}
		}
		sort.Slice(names, func(i, j int) bool {
			if len(names[i]) != len(names[j]) {
				return len(names[i]) < len(names[j])
			}
			return names[i] < names[j]
		})
		n := 0
		if len(x.Args) > 1 {
			if lit, ok := x.Args[1].(*EInt); ok {
				fmt.Sscan(lit.Val, &n)
			}
		} else if len(names) > 1 {
			ev.fail("visited(k): several map ranges, use visited(k, n)")
		}
		if n >= len(names) {
			return SV{tFalse, boolT}
		}
		for ck, v := range ev.curState().cells {
			if s, ok := ck.v.(string); ok && s == names[n] {
				return SV{tSelect(v.(Term), k), boolT}
			}
		}
		return SV{tFalse, boolT}
	case "arr", "off":
		t, _ := ev.evalTerm(x.Args[0])
		if t.Sort != SSlice {
			ev.fail("%s() of non-slice", id.Name)
		}
		if id.Name == "arr" {
			return SV{slArr(t), nil}
		}
		return SV{slOff(t), nil}
	case "apSet", "apVal":
		// apSet(p) / apVal(p): state of an atomic.Pointer[H] field p (is a value published / which one)
		p, _ := ev.evalTerm(x.Args[0])
		if id.Name == "apSet" {
			return SV{tSelect(ev.heap("AP_set", SBool), p), boolT}
		}
		return SV{tSelect(ev.heap("AP_val_Hdr", SHdr), p), nil}
	case "atomicU64":
		// atomicU64(a): current value of an atomic.Uint64 field a
		p, _ := ev.evalTerm(x.Args[0])
		return SV{tSelect(ev.heap("AT_u64", SInt), p), types.Typ[types.Uint64]}
	case "decHdr":
		b, _ := ev.evalTerm(x.Args[0])
		if b.Sort != SBytes {
			ev.fail("decHdr() takes bytes")
		}
		ev.fc.decls.fun("decHdr", []string{SBytes}, SHdr)
		return SV{app(SHdr, "decHdr", b), nil}
	case "sameHdr":
		// sameHdr(a, b): observationally equal headers (all observers agree)
		a, _ := ev.evalTerm(x.Args[0])
		b, _ := ev.evalTerm(x.Args[1])
		if a.Sort != SHdr || b.Sort != SHdr {
			ev.fail("sameHdr() takes two headers")
		}
		return SV{obsEq(a, b), boolT}
	case "upd":
		// upd(m, k, v): ghost collection m with key k set to v
		m, _ := ev.evalTerm(x.Args[0])
		k, _ := ev.evalTerm(x.Args[1])
		vv := ev.eval(x.Args[2])
		var v Term
		if vv.V == nil {
			v = nilOfSort(elemSortOfArray(m.Sort))
		} else {
			v, _ = vv.V.(Term)
		}
		if !strings.HasPrefix(m.Sort, "(Array ") || k.Sort != idxSortOfArray(m.Sort) || v.Sort != elemSortOfArray(m.Sort) {
			ev.fail("upd(): sorts do not fit %s[%s] := %s", m.Sort, k.Sort, v.Sort)
		}
		return SV{tStore(m, k, v), nil}
	case "trustedHeadOf":
		// trustedHeadOf(opts): the header carried by a header.WithTrustedHead option in the variadic list
		// (zero header if there is none). Options are closure values; only literal lists built at the call
		// site are understood, anything else is an unknown header.
		a := ev.eval(x.Args[0])
		switch av := a.V.(type) {
		case *ArrVal:
			for _, e := range av.Elems {
				if cv, ok := e.(*ClosureVal); ok && cv.Fn != nil && strings.HasPrefix(cv.Fn.Name(), "WithTrustedHead$") && len(cv.Bindings) == 1 {
					v := ev.fc.load(ev.curState(), cv.Bindings[0], cv.Fn.FreeVars[0].Type().(*types.Pointer).Elem(), nil)
					if vt, ok := v.(Term); ok && vt.Sort == SHdr {
						return SV{vt, nil}
					}
				}
			}
			return SV{T(SHdr, "zeroHdr"), nil}
		case Term:
			if av.Sort == SSlice {
				ev.fc.decls.fun("optsTrusted", []string{SSlice}, SHdr)
				return SV{tIte(tEq(slLen(av), intLit(0)), T(SHdr, "zeroHdr"), app(SHdr, "optsTrusted", av)), nil}
			}
		case nil:
			return SV{T(SHdr, "zeroHdr"), nil}
		}
		ev.fc.nfresh++
		return SV{ev.fc.decls.constant(fmt.Sprintf("unknownTrusted_%d", ev.fc.nfresh), SHdr), nil}
	case "called":
		// called(g): the call whose result is bound to ghost g was reached (and returned) on this path
		id2, ok := x.Args[0].(*EIdent)
		if !ok {
			ev.fail("called() takes a ghost name")
		}
		if ev.env.calleeFn != nil {
			// a callee's contract evaluated at a call site: whether its internal call happened is unknown
			if sv, ok := ev.env.names["called:"+id2.Name]; ok {
				return sv
			}
			sv := SV{ev.fc.fresh("cg_called_"+id2.Name, SBool), boolT}
			ev.env.names["called:"+id2.Name] = sv
			return sv
		}
		key, ok := ev.fc.ghostKeys[id2.Name]
		if !ok {
			ev.fail("called(%s): not a ghost call binding", id2.Name)
		}
		if v, ok := ev.curState().cells[cellKey{0, "called:" + key}].(Term); ok {
			return SV{v, boolT}
		}
		return SV{tFalse, boolT}
	case "anyOf":
		// anyOf(h): the header h boxed into an `any` value (e.g. pubsub.Message.ValidatorData)
		h, _ := ev.evalTerm(x.Args[0])
		if h.Sort != SHdr {
			ev.fail("anyOf() takes a header")
		}
		ev.fc.declareAnyHdr()
		return SV{app(SInt, "anyHdr", h), nil}
	case "reqOrigin", "reqHash", "reqIsOrigin", "reqIsHash":
		// accessors of the protobuf oneof HeaderRequest.Data (mirror the generated GetOrigin/GetHash)
		r, _ := ev.evalTerm(x.Args[0])
		reqT, _ := ev.fc.eng.lookupNamedType("pb", "HeaderRequest").(*types.Named)
		orgT, _ := ev.fc.eng.lookupNamedType("pb", "HeaderRequest_Origin").(*types.Named)
		hashT, _ := ev.fc.eng.lookupNamedType("pb", "HeaderRequest_Hash").(*types.Named)
		if reqT == nil || orgT == nil || hashT == nil {
			ev.fail("pb.HeaderRequest types not loaded")
		}
		ev.fc.decls.fun("dynType", []string{SInt}, SInt)
		d := tSelect(ev.heap(structHeapName(reqT, "Data"), SInt), r)
		isOrg := tAnd(tNot(tEq(d, intLit(0))), tEq(app(SInt, "dynType", d), intLit(int64(dynTypeID(orgT)))))
		isHash := tAnd(tNot(tEq(d, intLit(0))), tEq(app(SInt, "dynType", d), intLit(int64(dynTypeID(hashT)))))
		switch id.Name {
		case "reqIsOrigin":
			return SV{isOrg, boolT}
		case "reqIsHash":
			return SV{isHash, boolT}
		case "reqOrigin":
			return SV{tIte(isOrg, tSelect(ev.heap(structHeapName(orgT, "Origin"), SInt), d), intLit(0)), types.Typ[types.Uint64]}
		default:
			return SV{tIte(isHash, tSelect(ev.heap(structHeapName(hashT, "Hash"), SBytes), d), T(SBytes, "nilBytes")), nil}
		}
	case "at":
		// at(s, k): element of the backing array of slice s at the ABSOLUTE index k (s[i] == at(s, off(s)+i));
		// quantifying over absolute indices keeps triggers stable under re-slicing
		base := ev.eval(x.Args[0])
		bv, ok := base.V.(Term)
		if !ok || bv.Sort != SSlice {
			ev.fail("at() of non-slice")
		}
		idx, _ := ev.evalTerm(x.Args[1])
		var et types.Type
		es := SInt
		if base.GT != nil {
			if st, ok := unalias(base.GT).Underlying().(*types.Slice); ok {
				et = st.Elem()
				es = sortOf(et)
			}
		}
		h := ev.heapRaw(elemHeapName(es), arrSort(SInt, arrSort(SInt, es)))
		return SV{tSelect(tSelect(h, slArr(bv)), idx), et}
	case "cur":
		// cur(x): the current value of the local variable (or reassigned parameter) x of the function
		// under verification, e.g. in a postcondition
		id2, ok := x.Args[0].(*EIdent)
		if !ok {
			ev.fail("cur() takes a local variable name")
		}
		if cf := ev.env.calleeFn; cf != nil {
			// evaluating a callee's contract at a call site: its locals are unknown to the caller
			if sv, ok := ev.env.names["cur:"+id2.Name]; ok {
				return sv
			}
			var lt types.Type
			if o := cf.Origin(); o != nil {
				cf = o
			}
			for _, l := range cf.Locals {
				if l.Comment == id2.Name {
					lt = l.Type().(*types.Pointer).Elem()
					break
				}
			}
			if lt == nil {
				ev.fail("cur(%s): callee %s has no such local", id2.Name, cf.Name())
			}
			sv := SV{ev.fc.havocValue(ev.st, "cur_"+id2.Name, lt), lt}
			ev.env.names["cur:"+id2.Name] = sv
			return sv
		}
		saved := ev.env
		ev.env = &specEnv{names: map[string]SV{}, fr: ev.fc.topFrame, pkg: saved.pkg}
		sv, found := ev.localByName(id2.Name)
		ev.env = saved
		if !found {
			ev.fail("cur(%s): no such local", id2.Name)
		}
		return sv
	case "unchanged":
		// unchanged("Struct.field") / unchanged("elems(Hdr)"): the heap agrees with its entry value on
		// every reference that existed at entry
		s, ok := x.Args[0].(*EStr)
		if !ok {
			ev.fail("unchanged() takes a string designator")
		}
		hn := ev.fc.eng.resolveModifies(ev.env.pkg, s.Val)
		cur, ok := ev.st.heaps[hn]
		if !ok {
			if _, pending := ev.st.heaps[hn+"$pending"]; !pending {
				return SV{tTrue, boolT} // never touched
			}
			srt := ev.fc.eng.designatorSort(ev.env.pkg, s.Val)
			if srt == "" {
				ev.fail("unchanged(%s): cannot determine heap sort", s.Val)
			}
			cur = ev.fc.heapRaw(ev.st, hn, srt)
		}
		if ev.reads != nil {
			ev.reads[hn] = true
		}
		old := ev.fc.heapRaw(ev.old, hn, cur.Sort)
		ev.fc.nfresh++
		q := fmt.Sprintf("q_r_%d", ev.fc.nfresh)
		return SV{T(SBool, fmt.Sprintf("(forall ((%s Int)) (! (=> (and (<= 0 %s) (<= %s %s)) (= (select %s %s) (select %s %s))) :pattern ((select %s %s))))",
			q, q, q, ev.fc.allocTop(ev.old).S, cur.S, q, old.S, q, cur.S, q)), boolT}
	case "allocated":
		t, _ := ev.evalTerm(x.Args[0])
		return SV{tAnd(tLt(intLit(0), t), tLe(t, ev.fc.allocTop(ev.curState()))), boolT}
	case "fresh":
		t, _ := ev.evalTerm(x.Args[0])
		return SV{tGt(t, ev.fc.allocTop(ev.old)), boolT}
	case "deref":
		a := ev.eval(x.Args[0])
		if pv, ok := a.V.(*PtrVal); ok && pv.Kind == PSnap {
			var et types.Type
			if a.GT != nil {
				if pt, ok := unalias(a.GT).Underlying().(*types.Pointer); ok {
					et = pt.Elem()
				}
			}
			return SV{pv.V, et}
		}
		if pv, ok := a.V.(*PtrVal); ok && pv.Kind == PCell {
			// pointer to a local variable of the caller: its current content
			if v, ok := ev.curState().cells[pv.Cell]; ok {
				return SV{v, pv.Typ}
			}
		}
		ev.fail("deref of unsupported pointer")
	}
	if pf, ok := ev.fc.eng.pures[id.Name]; ok {
		if len(pf.Params) != len(x.Args) {
			ev.fail("pure function %s expects %d arguments", pf.Name, len(pf.Params))
		}
		scope := map[string]SV{}
		for i, p := range pf.Params {
			scope[p] = ev.eval(x.Args[i])
		}
		saved := ev.bound
		ev.bound = append(append([]map[string]SV(nil), saved...), scope)
		r := ev.eval(pf.Body)
		ev.bound = saved
		return r
	}
	if pd, ok := ev.fc.eng.preds[id.Name]; ok {
		if len(pd.Params) != len(x.Args) {
			ev.fail("predicate %s expects %d arguments", pd.Name, len(pd.Params))
		}
		var sorts []string
		var args []Term
		for i, p := range pd.Params {
			sorts = append(sorts, specSort(p.Type))
			sv := ev.eval(x.Args[i])
			var t Term
			if sv.V == nil {
				t = nilOfSort(specSort(p.Type))
			} else {
				tt, ok := sv.V.(Term)
				if !ok {
					ev.fail("argument %d of %s is not a term", i, pd.Name)
				}
				t = tt
			}
			if t.Sort != specSort(p.Type) {
				ev.fail("argument %d of %s has sort %s, want %s", i, pd.Name, t.Sort, specSort(p.Type))
			}
			args = append(args, t)
		}
		rs := specSort(pd.Result)
		ev.fc.decls.fun("sp_"+sanitize(pd.Name), sorts, rs)
		return SV{app(rs, "sp_"+sanitize(pd.Name), args...), ev.specType(pd.Result)}
	}
	ev.fail("unknown function %s", id.Name)
	return SV{}
}

// evalClauseTerm evaluates a non-boolean clause (decreases measure).
func (fc *FnCtx) evalClauseTerm(fr *Frame, st *State, entry *State, c Clause) Term {
	env := fc.frameEnv(fr, st)
	ev := &evaluator{fc: fc, st: st, old: entry, env: env, clause: &c}
	t, _ := ev.evalTerm(c.Expr)
	return t
}
