package main

import (
	"bytes"
	"context"
	"fmt"
	"os"
	"os/exec"
	"path/filepath"
	"regexp"
	"strings"
	"sync"
	"time"
)

type solverSpec struct {
	name    string
	variant string // "" full query | "pruned" relevance-filtered query (only its unsat answers count)
	cmd     func(file string, timeoutS int) []string
}

var solvers = []solverSpec{
	{"z3-new", "", func(f string, t int) []string { return []string{"z3-new", fmt.Sprintf("-T:%d", t), f} }},
	{"z3", "", func(f string, t int) []string { return []string{"z3", fmt.Sprintf("-T:%d", t), f} }},
	{"cvc5", "", func(f string, t int) []string {
		return []string{"cvc5", fmt.Sprintf("--tlimit=%d", t*1000), "--produce-models", f}
	}},
	{"z3-new/pruned", "pruned", func(f string, t int) []string { return []string{"z3-new", fmt.Sprintf("-T:%d", t), f} }},
}

// Assertions may be solver-specific: a "#z3#" prefix keeps the assertion out of the cvc5 query (array
// lambdas), "#cvc5#" keeps it out of the z3 queries (the quantified twin of the same definition).
func (ob *Obligation) assertionsFor(dialect string) []string {
	fc := ob.fc
	var out []string
	for i := 0; i < ob.NAssert && i < len(fc.assertions); i++ {
		a := fc.assertions[i]
		if strings.HasPrefix(a, "#z3#") {
			if dialect != "z3" {
				continue
			}
			a = a[4:]
		} else if strings.HasPrefix(a, "#cvc5#") {
			if dialect != "cvc5" {
				continue
			}
			a = a[6:]
		}
		out = append(out, a)
	}
	return out
}

func (ob *Obligation) render(asserts []string) string {
	var b strings.Builder
	b.WriteString(smtPrelude)
	b.WriteString(ob.fc.decls.dump())
	for _, a := range asserts {
		b.WriteString("(assert ")
		b.WriteString(a)
		b.WriteString(")\n")
	}
	b.WriteString("(assert ")
	b.WriteString(ob.PC.S)
	b.WriteString(")\n")
	if !ob.Cover {
		b.WriteString("(assert (not ")
		b.WriteString(ob.Goal.S)
		b.WriteString("))\n")
	}
	b.WriteString("(check-sat)\n")
	b.WriteString("(get-model)\n")
	return b.String()
}

func (ob *Obligation) query(dialect string) string { return ob.render(ob.assertionsFor(dialect)) }

var symRe = regexp.MustCompile(`[A-Za-z_][A-Za-z0-9_.$!]*`)

// linking symbols: data constants / functions introduced by the executor. Path-condition names, heap
// arrays and the background vocabulary connect everything with everything and are ignored.
func linkingSymbols(s string) map[string]bool {
	out := map[string]bool{}
	for _, m := range symRe.FindAllString(s, -1) {
		switch {
		case strings.HasPrefix(m, "pc_"), strings.HasPrefix(m, "g_"), strings.HasPrefix(m, "F_"), strings.HasPrefix(m, "EH_"),
			strings.HasPrefix(m, "MH_"), strings.HasPrefix(m, "AP_"), strings.HasPrefix(m, "AT_"), strings.HasPrefix(m, "BOX_"),
			strings.HasPrefix(m, "lh_F_"), strings.HasPrefix(m, "lh_EH_"), strings.HasPrefix(m, "hv_"), strings.HasPrefix(m, "mh_"),
			strings.HasPrefix(m, "q_"), strings.HasPrefix(m, "sent_"), strings.HasPrefix(m, "allocTop"), strings.HasPrefix(m, "sp_"),
			strings.HasPrefix(m, "as_"), strings.HasPrefix(m, "box_"), strings.HasPrefix(m, "ghost_"):
			continue
		}
		if smtVocabulary[m] {
			continue
		}
		out[m] = true
	}
	return out
}

var smtVocabulary = func() map[string]bool {
	m := map[string]bool{}
	for _, w := range strings.Fields(`assert and or not ite let forall exists lambda select store as const Array Int Bool true false
		distinct mod div abs pattern k r e h s b a height htime chainID hash lastHash isZero zeroHdr nilErr errIs nilBytes blen hexStr unhexStr
		emptyStr slen foldEq Hdr Str Err Bytes Slice dynType ownerOf tagOf ctxParent mulUF strConcat`) {
		m[w] = true
	}
	m["mk-slice"], m["s-arr"], m["s-off"], m["s-len"], m["s-cap"] = true, true, true, true, true
	return m
}()

func isQuantified(a string) bool {
	return strings.Contains(a, "(forall ") || strings.Contains(a, "(exists ") || strings.Contains(a, "(lambda ")
}

// prunedQuery keeps every quantifier-free assertion and only those quantified assertions that mention a
// data symbol in the goal's cone of influence (computed through the quantifier-free assertions).
// Dropping hypotheses is sound for an `unsat` answer; a `sat` answer of the pruned query is ignored.
func (ob *Obligation) prunedQuery() (string, int) {
	asserts := ob.assertionsFor("z3")
	cone := linkingSymbols(ob.Goal.S)
	for k := range linkingSymbols(ob.PC.S) {
		cone[k] = true
	}
	syms := make([]map[string]bool, len(asserts))
	quant := make([]bool, len(asserts))
	for i, a := range asserts {
		syms[i] = linkingSymbols(a)
		quant[i] = isQuantified(a)
	}
	used := make([]bool, len(asserts))
	for changed := true; changed; {
		changed = false
		for i := range asserts {
			if used[i] {
				continue
			}
			hit := false
			for s := range syms[i] {
				if cone[s] {
					hit = true
					break
				}
			}
			if !hit {
				continue
			}
			used[i] = true
			changed = true
			// quantified facts are leaves: they do not extend the cone (that is what keeps it small)
			if !quant[i] || len(syms[i]) <= 3 {
				for s := range syms[i] {
					cone[s] = true
				}
			}
		}
	}
	var keep []string
	dropped := 0
	for i, a := range asserts {
		if !quant[i] || used[i] || len(syms[i]) == 0 {
			keep = append(keep, a)
		} else {
			dropped++
		}
	}
	return ob.render(keep), dropped
}

func runSolver(ctx context.Context, s solverSpec, file string, timeoutS int) (string, string) {
	args := s.cmd(file, timeoutS)
	cctx, cancel := context.WithTimeout(ctx, time.Duration(timeoutS+2)*time.Second)
	defer cancel()
	cmd := exec.CommandContext(cctx, args[0], args[1:]...)
	var out bytes.Buffer
	cmd.Stdout = &out
	cmd.Stderr = &out
	_ = cmd.Run()
	text := out.String()
	first := strings.TrimSpace(strings.SplitN(text, "\n", 2)[0])
	switch first {
	case "unsat", "sat", "unknown":
		return first, text
	}
	if strings.Contains(first, "timeout") || cctx.Err() != nil {
		return "timeout", text
	}
	return "error", text
}

// solveOne races the solvers on one obligation.
func solveOne(ob *Obligation, dir string, timeoutS int, crossCheck bool) {
	if ob.Cover && timeoutS > 4 {
		// vacuity covers: a model is either found quickly or (with quantified background axioms) not at
		// all; an inconclusive cover is reported as such and is not a failure
		timeoutS = 4
	}
	base := filepath.Join(dir, sanitizeFile(ob.Name))
	file := base + ".smt2"
	q := ob.query("z3")
	if err := os.WriteFile(file, []byte(q), 0o644); err != nil {
		ob.Status = "unknown"
		return
	}
	fileC := file
	if qc := ob.query("cvc5"); qc != q {
		fileC = base + ".cvc5.smt2"
		os.WriteFile(fileC, []byte(qc), 0o644)
	}
	fileP := ""
	if !ob.Cover {
		if qp, dropped := ob.prunedQuery(); dropped > 0 {
			fileP = base + ".pruned.smt2"
			os.WriteFile(fileP, []byte(qp), 0o644)
		}
	}
	start := time.Now()
	ctx, cancel := context.WithCancel(context.Background())
	defer cancel()
	type res struct {
		s       string
		verdict string
		out     string
		ms      int64
	}
	ch := make(chan res, len(solvers))
	n := 0
	for _, s := range solvers {
		f := file
		switch {
		case s.variant == "pruned":
			if fileP == "" {
				continue
			}
			f = fileP
		case s.name == "cvc5":
			f = fileC
		}
		n++
		go func(s solverSpec, f string) {
			t0 := time.Now()
			v, out := runSolver(ctx, s, f, timeoutS)
			if s.variant == "pruned" && v != "unsat" {
				v = "n/a" // only a proof from fewer hypotheses means something
			}
			ch <- res{s.name, v, out, time.Since(t0).Milliseconds()}
		}(s, f)
	}
	ob.Outputs = map[string]string{}
	var definitive []res
	for i := 0; i < n; i++ {
		r := <-ch
		ob.Outputs[r.s] = r.verdict
		if r.verdict == "sat" || r.verdict == "unsat" {
			definitive = append(definitive, r)
			if !crossCheck {
				cancel()
				break
			}
			// cross-check: wait for a second opinion
			if len(definitive) >= 2 {
				cancel()
				break
			}
		}
	}
	ob.Ms = time.Since(start).Milliseconds()
	want := "unsat"
	if ob.Cover {
		want = "sat"
	}
	var sat, unsat *res
	for i := range definitive {
		if definitive[i].verdict == "sat" && sat == nil {
			sat = &definitive[i]
		}
		if definitive[i].verdict == "unsat" && unsat == nil {
			unsat = &definitive[i]
		}
	}
	switch {
	case sat != nil && unsat != nil:
		ob.Status = "failed"
		ob.Solver = "DISAGREEMENT " + sat.s + "=sat " + unsat.s + "=unsat"
		ob.Model = trimModel(sat.out)
	case want == "unsat" && unsat != nil:
		ob.Status = "discharged"
		ob.Solver = unsat.s
	case want == "unsat" && sat != nil:
		ob.Status = "failed"
		ob.Solver = sat.s
		ob.Model = trimModel(sat.out)
	case want == "sat" && sat != nil:
		ob.Status = "cover-ok"
		ob.Solver = sat.s
	case want == "sat" && unsat != nil:
		ob.Status = "cover-vacuous"
		ob.Solver = unsat.s
	default:
		ob.Status = "unknown"
		if !ob.Cover {
			// no solver decided the full query (quantified background axioms make `sat` unreachable).
			// Look for a CANDIDATE counterexample in the quantifier-free part: dropping hypotheses can only
			// add models, so such a model proves nothing by itself -- it is only used to drive the replay
			// against the real code, which is what confirms (or discards) it.
			var qf []string
			for _, a := range ob.assertionsFor("z3") {
				if !isQuantified(a) {
					qf = append(qf, a)
				}
			}
			reqQuantified := false
			for i := ob.fc.reqStart; i < ob.fc.reqEnd && i < len(ob.fc.assertions); i++ {
				if isQuantified(ob.fc.assertions[i]) {
					// a dropped precondition would let the candidate lie outside the contract
					reqQuantified = true
				}
			}
			if !reqQuantified && !isQuantified(ob.PC.S) && !isQuantified(ob.Goal.S) {
				rq := ob.render(qf)
				fq := base + ".qf.smt2"
				if os.WriteFile(fq, []byte(rq), 0o644) == nil {
					cctx, ccancel := context.WithTimeout(context.Background(), 8*time.Second)
					v, out := runSolver(cctx, solvers[0], fq, 5)
					ccancel()
					if v == "sat" {
						ob.Model = trimModel(out)
						ob.ModelQuery = rq
						ob.Outputs["z3-new/quantifier-free"] = "sat (candidate model only)"
					}
				}
			}
		}
		nerr := 0
		for _, v := range ob.Outputs {
			if v == "error" {
				nerr++
			}
		}
		if nerr >= 2 {
			ob.Solver = "SOLVER-ERROR(malformed query?)"
		}
	}
}

func trimModel(s string) string {
	if len(s) > 60000 {
		return s[:60000] + "\n...truncated"
	}
	return s
}

func sanitizeFile(s string) string {
	r := strings.NewReplacer("/", "_", "(", "", ")", "", "*", "", "#", "-", ":", "_", "$", "_", " ", "_")
	return r.Replace(s)
}

func solveAll(obs []*Obligation, dir string, timeoutS int, crossCheck bool, par int) {
	os.MkdirAll(dir, 0o755)
	sem := make(chan struct{}, par)
	var wg sync.WaitGroup
	for _, ob := range obs {
		wg.Add(1)
		sem <- struct{}{}
		go func(ob *Obligation) {
			defer wg.Done()
			defer func() { <-sem }()
			solveOne(ob, dir, timeoutS, crossCheck)
		}(ob)
	}
	wg.Wait()
}
