package main

import (
	"bytes"
	"context"
	"fmt"
	"os"
	"os/exec"
	"path/filepath"
	"strings"
	"sync"
	"time"
)

type solverSpec struct {
	name string
	cmd  func(file string, timeoutS int) []string
}

var solvers = []solverSpec{
	{"z3-new", func(f string, t int) []string { return []string{"z3-new", fmt.Sprintf("-T:%d", t), f} }},
	{"z3", func(f string, t int) []string { return []string{"z3", fmt.Sprintf("-T:%d", t), f} }},
	{"cvc5", func(f string, t int) []string {
		return []string{"cvc5", fmt.Sprintf("--tlimit=%d", t*1000), "--produce-models", f}
	}},
}

func (ob *Obligation) query() string {
	fc := ob.fc
	var b strings.Builder
	b.WriteString(smtPrelude)
	b.WriteString(fc.decls.dump())
	for i := 0; i < ob.NAssert && i < len(fc.assertions); i++ {
		b.WriteString("(assert ")
		b.WriteString(fc.assertions[i])
		b.WriteString(")\n")
	}
	b.WriteString("(assert ")
	b.WriteString(ob.PC.S)
	b.WriteString(")\n")
	if !ob.Cover {
		b.WriteString("(assert (not ")
		b.WriteString(ob.Goal.S)
		b.WriteString("))\n")
	}
	b.WriteString("(check-sat)\n")
	b.WriteString("(get-model)\n")
	return b.String()
}

type solveResult struct {
	verdict string // unsat sat unknown
	solver  string
	ms      int64
	out     string
	all     map[string]string
}

func runSolver(ctx context.Context, s solverSpec, file string, timeoutS int) (string, string) {
	args := s.cmd(file, timeoutS)
	cctx, cancel := context.WithTimeout(ctx, time.Duration(timeoutS+2)*time.Second)
	defer cancel()
	cmd := exec.CommandContext(cctx, args[0], args[1:]...)
	var out bytes.Buffer
	cmd.Stdout = &out
	cmd.Stderr = &out
	_ = cmd.Run()
	text := out.String()
	first := strings.TrimSpace(strings.SplitN(text, "\n", 2)[0])
	switch first {
	case "unsat", "sat", "unknown":
		return first, text
	}
	if strings.Contains(first, "timeout") || cctx.Err() != nil {
		return "timeout", text
	}
	return "error", text
}

// solveOne races the solvers on one obligation.
func solveOne(ob *Obligation, dir string, timeoutS int, crossCheck bool) {
	file := filepath.Join(dir, sanitizeFile(ob.Name)+".smt2")
	q := ob.query()
	if err := os.WriteFile(file, []byte(q), 0o644); err != nil {
		ob.Status = "unknown"
		return
	}
	start := time.Now()
	ctx, cancel := context.WithCancel(context.Background())
	defer cancel()
	type res struct {
		s       string
		verdict string
		out     string
		ms      int64
	}
	ch := make(chan res, len(solvers))
	for _, s := range solvers {
		go func(s solverSpec) {
			t0 := time.Now()
			v, out := runSolver(ctx, s, file, timeoutS)
			ch <- res{s.name, v, out, time.Since(t0).Milliseconds()}
		}(s)
	}
	ob.Outputs = map[string]string{}
	var definitive []res
	for range solvers {
		r := <-ch
		ob.Outputs[r.s] = r.verdict
		if r.verdict == "sat" || r.verdict == "unsat" {
			definitive = append(definitive, r)
			if !crossCheck {
				cancel()
				break
			}
			// cross-check: wait for a second opinion from a different family
			if len(definitive) >= 2 {
				cancel()
				break
			}
		}
	}
	ob.Ms = time.Since(start).Milliseconds()
	want := "unsat"
	if ob.Cover {
		want = "sat"
	}
	var sat, unsat *res
	for i := range definitive {
		if definitive[i].verdict == "sat" && sat == nil {
			sat = &definitive[i]
		}
		if definitive[i].verdict == "unsat" && unsat == nil {
			unsat = &definitive[i]
		}
	}
	switch {
	case sat != nil && unsat != nil:
		ob.Status = "failed"
		ob.Solver = "DISAGREEMENT " + sat.s + "=sat " + unsat.s + "=unsat"
		ob.Model = trimModel(sat.out)
	case want == "unsat" && unsat != nil:
		ob.Status = "discharged"
		ob.Solver = unsat.s
	case want == "unsat" && sat != nil:
		ob.Status = "failed"
		ob.Solver = sat.s
		ob.Model = trimModel(sat.out)
	case want == "sat" && sat != nil:
		ob.Status = "cover-ok"
		ob.Solver = sat.s
	case want == "sat" && unsat != nil:
		ob.Status = "cover-vacuous"
		ob.Solver = unsat.s
	default:
		ob.Status = "unknown"
	}
}

func trimModel(s string) string {
	if len(s) > 60000 {
		return s[:60000] + "\n...truncated"
	}
	return s
}

func sanitizeFile(s string) string {
	r := strings.NewReplacer("/", "_", "(", "", ")", "", "*", "", "#", "-", ":", "_", "$", "_", " ", "_")
	return r.Replace(s)
}

func solveAll(obs []*Obligation, dir string, timeoutS int, crossCheck bool, par int) {
	os.MkdirAll(dir, 0o755)
	sem := make(chan struct{}, par)
	var wg sync.WaitGroup
	for _, ob := range obs {
		wg.Add(1)
		sem <- struct{}{}
		go func(ob *Obligation) {
			defer wg.Done()
			defer func() { <-sem }()
			solveOne(ob, dir, timeoutS, crossCheck)
		}(ob)
	}
	wg.Wait()
}
