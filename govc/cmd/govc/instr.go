package main

import (
	"fmt"
	"go/token"
	"go/types"
	"sort"
	"strings"

	"golang.org/x/tools/go/ssa"
)

// execInstr executes one instruction; returns true if the block ended without fallthrough state
// (return, panic).
func (fc *FnCtx) execInstr(fr *Frame, st *State, instr ssa.Instruction, edgeConds map[[2]*ssa.BasicBlock]Term) bool {
	switch x := instr.(type) {
	case *ssa.DebugRef:
		return false
	case *ssa.Alloc:
		elem := x.Type().(*types.Pointer).Elem()
		if n, ok := isStructVal(elem); ok && namedPath(elem) != "time.Time" {
			fr.env[x] = fc.allocObj(st, n)
			return false
		}
		key := cellKey{fr.id, x}
		st.cells[key] = fc.zeroValue(st, elem)
		fr.env[x] = &PtrVal{Kind: PCell, Cell: key, Typ: elem}
		return false
	case *ssa.Store:
		addr := fc.value(fr, st, x.Addr)
		val := fc.value(fr, st, x.Val)
		fc.store(st, addr, val, x.Addr.Type().Underlying().(*types.Pointer).Elem(), x)
		fc.checkStepInv(fr, st, x)
		return false
	case *ssa.UnOp:
		fr.env[x] = fc.execUnOp(fr, st, x)
		return false
	case *ssa.BinOp:
		fr.env[x] = fc.execBinOp(fr, st, x)
		return false
	case *ssa.Call:
		fr.env[x] = fc.execCall(fr, st, x, x.Common())
		return false
	case *ssa.Go:
		fc.execGo(fr, st, x)
		return false
	case *ssa.Defer:
		fc.execDefer(fr, st, x)
		return false
	case *ssa.RunDefers:
		fc.runDefers(fr, st, x)
		return false
	case *ssa.If:
		c := fc.termOrHavoc(fr, st, x.Cond, x)
		b := x.Block()
		edgeConds[[2]*ssa.BasicBlock{b, b.Succs[0]}] = c
		if b.Succs[0] == b.Succs[1] {
			edgeConds[[2]*ssa.BasicBlock{b, b.Succs[0]}] = tTrue
		} else {
			edgeConds[[2]*ssa.BasicBlock{b, b.Succs[1]}] = tNot(c)
		}
		return false
	case *ssa.Jump:
		return false
	case *ssa.Return:
		var vals []Val
		for _, r := range x.Results {
			vals = append(vals, fc.value(fr, st, r))
		}
		fr.rets = append(fr.rets, retInfo{st, vals})
		return true
	case *ssa.Panic:
		ps := st.clone()
		ps.why = "explicit panic at " + fc.posOf(x.Pos())
		fr.panics = append(fr.panics, ps)
		return true
	case *ssa.FieldAddr:
		fr.env[x] = fc.execFieldAddr(fr, st, x)
		return false
	case *ssa.Field:
		fr.env[x] = fc.execField(fr, st, x)
		return false
	case *ssa.IndexAddr:
		fr.env[x] = fc.execIndexAddr(fr, st, x)
		return false
	case *ssa.Index:
		fr.env[x] = fc.execIndex(fr, st, x)
		return false
	case *ssa.Slice:
		fr.env[x] = fc.execSlice(fr, st, x)
		return false
	case *ssa.MakeSlice:
		fr.env[x] = fc.execMakeSlice(fr, st, x)
		return false
	case *ssa.MakeMap:
		r := fc.allocRef(st)
		m := x.Type().Underlying().(*types.Map)
		hasN, _ := mapHeapNames(m)
		ks := sortOf(m.Key())
		h := fc.heapRaw(st, hasN, arrSort(SInt, arrSort(ks, SBool)))
		fc.setHeap(st, hasN, tStore(h, r, T(arrSort(ks, SBool), fmt.Sprintf("((as const %s) false)", arrSort(ks, SBool)))))
		fr.env[x] = r
		return false
	case *ssa.MakeChan:
		r := fc.allocRef(st)
		fr.env[x] = r
		fc.noteChanOrigin(fr, x, r)
		return false
	case *ssa.MakeClosure:
		cv := &ClosureVal{Fn: x.Fn.(*ssa.Function)}
		for _, b := range x.Bindings {
			cv.Bindings = append(cv.Bindings, fc.value(fr, st, b))
		}
		fr.env[x] = cv
		return false
	case *ssa.MakeInterface:
		fr.env[x] = fc.execMakeInterface(fr, st, x)
		return false
	case *ssa.ChangeInterface:
		v := fc.value(fr, st, x.X)
		if isErrorType(x.X.Type()) && !isErrorType(x.Type()) {
			fr.env[x] = &AnyVal{V: v, GT: x.X.Type()}
		} else {
			fr.env[x] = v
		}
		return false
	case *ssa.ChangeType:
		fr.env[x] = fc.value(fr, st, x.X)
		return false
	case *ssa.Convert:
		fr.env[x] = fc.execConvert(fr, st, x)
		return false
	case *ssa.MultiConvert:
		fr.env[x] = fc.value(fr, st, x.X)
		return false
	case *ssa.Extract:
		tv, ok := fc.value(fr, st, x.Tuple).(*TupleVal)
		if ok && x.Index < len(tv.Elems) {
			fr.env[x] = tv.Elems[x.Index]
		} else {
			fr.env[x] = fc.havocValue(st, "extract", x.Type())
		}
		return false
	case *ssa.TypeAssert:
		fr.env[x] = fc.execTypeAssert(fr, st, x)
		return false
	case *ssa.Lookup:
		fr.env[x] = fc.execLookup(fr, st, x)
		return false
	case *ssa.MapUpdate:
		fc.execMapUpdate(fr, st, x)
		return false
	case *ssa.Range:
		fr.env[x] = &rangeIter{x: x, coll: fc.value(fr, st, x.X)}
		if mt, isMap := unalias(x.X.Type()).Underlying().(*types.Map); isMap {
			// ghost set of the keys this iteration has produced so far
			ks := sortOf(mt.Key())
			st.cells[cellKey{fr.id, "visited:" + x.Name()}] = T(arrSort(ks, SBool), fmt.Sprintf("((as const %s) false)", arrSort(ks, SBool)))
		}
		return false
	case *ssa.Next:
		fr.env[x] = fc.execNext(fr, st, x)
		return false
	case *ssa.Select:
		fr.env[x] = fc.execSelect(fr, st, x)
		return false
	case *ssa.Send:
		ch := fc.termOrHavoc(fr, st, x.Chan, x)
		fc.chanSend(fr, st, x.Chan, ch, fc.value(fr, st, x.X), tTrue, x.Pos())
		return false
	case *ssa.SliceToArrayPointer:
		fr.env[x] = &Poison{"slice to array pointer"}
		return false
	}
	fc.abstract(instr, fmt.Sprintf("unsupported instruction %T", instr))
	if v, ok := instr.(ssa.Value); ok {
		fr.env[v] = fc.havocValue(st, "unsup", v.Type())
	}
	return false
}

// obligeSafe emits a run-time safety obligation and then assumes it (the continuation is only
// meaningful when the operation did not panic), so one defect is reported once.
func (fc *FnCtx) obligeSafe(st *State, kind, detail string, goal Term, pos token.Pos, props []string, src string) {
	fc.oblige(st, kind, detail, goal, pos, props, src)
	fc.assume(st, goal)
}

// deleteOnlyLoop: the natural loop headed by the block of this Next contains no map insertion and no call
// other than the builtin delete (so the set of entries can only shrink while iterating).
func deleteOnlyLoop(x *ssa.Next) bool {
	h := x.Block()
	body := map[*ssa.BasicBlock]bool{h: true}
	var stack []*ssa.BasicBlock
	for _, p := range h.Preds {
		if h.Dominates(p) && !body[p] {
			body[p] = true
			stack = append(stack, p)
		}
	}
	for len(stack) > 0 {
		b := stack[len(stack)-1]
		stack = stack[:len(stack)-1]
		for _, p := range b.Preds {
			if !body[p] {
				body[p] = true
				stack = append(stack, p)
			}
		}
	}
	if len(body) == 1 {
		return false
	}
	for b := range body {
		for _, in := range b.Instrs {
			switch c := in.(type) {
			case *ssa.MapUpdate, *ssa.Go, *ssa.Defer, *ssa.Send, *ssa.Select:
				return false
			case *ssa.Call:
				if bi, ok := c.Call.Value.(*ssa.Builtin); !ok || bi.Name() != "delete" {
					return false
				}
			}
		}
	}
	return true
}

type rangeIter struct {
	x    *ssa.Range
	coll Val
}

// ---------------------------------------------------------------------------

func (fc *FnCtx) execUnOp(fr *Frame, st *State, x *ssa.UnOp) Val {
	switch x.Op {
	case token.MUL: // load
		p := fc.value(fr, st, x.X)
		return fc.load(st, p, x.Type(), x)
	case token.NOT:
		return tNot(fc.termOrHavoc(fr, st, x.X, x))
	case token.SUB:
		v := fc.termOrHavoc(fr, st, x.X, x)
		return wrapOnce(app(SInt, "-", v), x.Type())
	case token.ARROW:
		ch := fc.termOrHavoc(fr, st, x.X, x)
		v := fc.chanRecv(fr, st, x.X, ch, x.X.Type().Underlying().(*types.Chan).Elem(), tTrue)
		if x.CommaOk {
			ok := fc.fresh("recvok", SBool)
			return &TupleVal{Elems: []Val{v, ok}}
		}
		return v
	case token.XOR:
		fc.abstract(x, "bitwise complement")
		return fc.havocValue(st, "xor", x.Type())
	}
	fc.abstract(x, "unsupported unary op "+x.Op.String())
	return fc.havocValue(st, "unop", x.Type())
}

func goDiv(a, b Term) Term {
	// Go truncated division for arbitrary signs (b != 0)
	q1 := app(SInt, "div", a, b)
	// SMT div is floor for positive divisor / ceil for negative so that remainder is non-negative;
	// truncated: if a >= 0 then (div a b) else -(div (-a) b)
	return tIte(tGe(a, intLit(0)), q1, app(SInt, "-", app(SInt, "div", app(SInt, "-", a), b)))
}

func goRem(a, b Term) Term {
	absb := tIte(tGe(b, intLit(0)), b, app(SInt, "-", b))
	return tIte(tGe(a, intLit(0)), app(SInt, "mod", a, absb), app(SInt, "-", app(SInt, "mod", app(SInt, "-", a), absb)))
}

func (fc *FnCtx) execBinOp(fr *Frame, st *State, x *ssa.BinOp) Val {
	lv := fc.value(fr, st, x.X)
	rv := fc.value(fr, st, x.Y)
	// pointer / closure comparisons
	switch x.Op {
	case token.EQL, token.NEQ:
		r, ok := fc.compareVals(fr, st, x, lv, rv)
		if ok {
			if x.Op == token.NEQ {
				return tNot(r)
			}
			return r
		}
	}
	l, lok := lv.(Term)
	r, rok := rv.(Term)
	if !lok || !rok {
		fc.abstract(x, fmt.Sprintf("binary op %s on %T,%T", x.Op, lv, rv))
		return fc.havocValue(st, "binop", x.Type())
	}
	xt := x.X.Type()
	switch x.Op {
	case token.ADD:
		if l.Sort == SStr {
			fc.decls.fun("strConcat", []string{SStr, SStr}, SStr)
			return app(SStr, "strConcat", l, r)
		}
		return fc.nameTerm("add", wrapOnce(tAdd(l, r), x.Type()))
	case token.SUB:
		return fc.nameTerm("sub", wrapOnce(tSub(l, r), x.Type()))
	case token.MUL:
		_, lc := x.X.(*ssa.Const)
		_, rc := x.Y.(*ssa.Const)
		if lc || rc {
			return fc.nameTerm("mul", wrapMod(app(SInt, "*", l, r), x.Type()))
		}
		fc.abstract(x, "variable*variable multiplication is uninterpreted")
		fc.decls.fun("mulUF", []string{SInt, SInt}, SInt)
		v := app(SInt, "mulUF", l, r)
		fc.assume(st, rangeFact(v, x.Type()))
		return v
	case token.QUO:
		fc.obligeSafe(st, "div0", "", tNot(tEq(r, intLit(0))), x.Pos(), nil, "division by zero")
		return fc.nameTerm("quo", wrapOnce(goDiv(l, r), x.Type()))
	case token.REM:
		fc.obligeSafe(st, "div0", "", tNot(tEq(r, intLit(0))), x.Pos(), nil, "modulo by zero")
		return fc.nameTerm("rem", goRem(l, r))
	case token.EQL:
		return tEq(l, r)
	case token.NEQ:
		return tNot(tEq(l, r))
	case token.LSS:
		if l.Sort == SStr {
			break
		}
		return tLt(l, r)
	case token.LEQ:
		if l.Sort == SStr {
			break
		}
		return tLe(l, r)
	case token.GTR:
		if l.Sort == SStr {
			break
		}
		return tGt(l, r)
	case token.GEQ:
		if l.Sort == SStr {
			break
		}
		return tGe(l, r)
	case token.AND, token.OR:
		if l.Sort == SBool {
			if x.Op == token.AND {
				return tAnd(l, r)
			}
			return tOr(l, r)
		}
	}
	_ = xt
	fc.abstract(x, "unsupported binary op "+x.Op.String())
	return fc.havocValue(st, "binop", x.Type())
}

func (fc *FnCtx) compareVals(fr *Frame, st *State, x *ssa.BinOp, lv, rv Val) (Term, bool) {
	isNilConst := func(v ssa.Value) bool {
		c, ok := v.(*ssa.Const)
		return ok && c.Value == nil
	}
	// pointer vs nil
	if pv, ok := lv.(*PtrVal); ok && isNilConst(x.Y) {
		return fc.ptrIsNil(pv), true
	}
	if pv, ok := rv.(*PtrVal); ok && isNilConst(x.X) {
		return fc.ptrIsNil(pv), true
	}
	if cv, ok := lv.(*ClosureVal); ok && isNilConst(x.Y) {
		_ = cv
		return tFalse, true
	}
	if _, ok := lv.(*AnyVal); ok && isNilConst(x.Y) {
		return tFalse, true
	}
	if _, ok := lv.(*Poison); ok {
		return fc.fresh("cmp", SBool), true
	}
	if _, ok := rv.(*Poison); ok {
		return fc.fresh("cmp", SBool), true
	}
	// slice == nil
	if lt, ok := lv.(Term); ok && lt.Sort == SSlice && isNilConst(x.Y) {
		return tEq(lt, nilSlice), true // approximates: non-nil empty slices compare unequal to nil
	}
	if lt, ok := lv.(Term); ok && lt.Sort == SBytes && isNilConst(x.Y) {
		return tEq(lt, T(SBytes, "nilBytes")), true
	}
	return Term{}, false
}

func (fc *FnCtx) ptrIsNil(pv *PtrVal) Term {
	switch pv.Kind {
	case PSnap:
		return pv.IsNil
	default:
		return tFalse
	}
}

// ---------------------------------------------------------------------------
// Field / index access

func (fc *FnCtx) execFieldAddr(fr *Frame, st *State, x *ssa.FieldAddr) Val {
	base := fc.value(fr, st, x.X)
	n, s := structOf(x.X.Type())
	if s == nil {
		// anonymous struct pointer
		return &Poison{"field of anonymous struct"}
	}
	f := s.Field(x.Field)
	hn := structHeapName(n, f.Name())
	obj, ok := base.(Term)
	if !ok {
		fc.abstract(x, fmt.Sprintf("field address on %T", base))
		return &Poison{"fieldaddr base"}
	}
	if _, nested := isNestedStructField(f.Type()); nested {
		h := fc.heap(st, hn, SInt)
		inner := tSelect(h, obj)
		fc.nestedFact(st, inner, obj, hn)
		return inner
	}
	return &PtrVal{Kind: PField, Obj: obj, Heap: hn, HSort: sortOf(f.Type()), Typ: f.Type()}
}

func (fc *FnCtx) execField(fr *Frame, st *State, x *ssa.Field) Val {
	base := fc.value(fr, st, x.X)
	n, s := structOf(x.X.Type())
	if s == nil {
		if tv, ok := base.(*TupleVal); ok && x.Field < len(tv.Elems) {
			return tv.Elems[x.Field]
		}
		return fc.havocValue(st, "field", x.Type())
	}
	f := s.Field(x.Field)
	obj, ok := base.(Term)
	if !ok {
		return fc.havocValue(st, "field", x.Type())
	}
	hn := structHeapName(n, f.Name())
	if _, nested := isNestedStructField(f.Type()); nested {
		return tSelect(fc.heap(st, hn, SInt), obj)
	}
	v := tSelect(fc.heap(st, hn, sortOf(f.Type())), obj)
	fc.assume(st, fc.typeFact(st, v, f.Type()))
	return v
}

func (fc *FnCtx) execIndexAddr(fr *Frame, st *State, x *ssa.IndexAddr) Val {
	base := fc.value(fr, st, x.X)
	xt := unalias(x.X.Type()).Underlying()
	if pt, ok := xt.(*types.Pointer); ok {
		// pointer to array
		if _, ok := unalias(pt.Elem()).Underlying().(*types.Array); ok {
			if pv, ok := base.(*PtrVal); ok && pv.Kind == PCell {
				if c, ok := x.Index.(*ssa.Const); ok {
					if i, ok := constInt(c); ok {
						return &PtrVal{Kind: PArrElem, Cell: pv.Cell, Idx: int(i), Typ: x.Type().(*types.Pointer).Elem()}
					}
				}
			}
			return &Poison{"array element address"}
		}
	}
	sl, ok := base.(Term)
	if !ok || sl.Sort != SSlice {
		return &Poison{"index address base"}
	}
	idx := fc.termOrHavoc(fr, st, x.Index, x)
	fc.obligeSafe(st, "index", "", tAnd(tLe(intLit(0), idx), tLt(idx, slLen(sl))), x.Pos(), nil, "index in range")
	elem := x.Type().(*types.Pointer).Elem()
	es := sortOf(elem)
	if n, ok := isStructVal(elem); ok && namedPath(elem) != "time.Time" {
		// slice of struct values: element is a reference into the element heap
		_ = n
		h := fc.heapRaw(st, elemHeapName(SInt), arrSort(SInt, arrSort(SInt, SInt)))
		return tSelect(tSelect(h, slArr(sl)), tIx(slOff(sl), idx))
	}
	return &PtrVal{Kind: PElem, Arr: slArr(sl), I: tIx(slOff(sl), idx), Heap: elemHeapName(es), HSort: es, Typ: elem}
}

func constInt(c *ssa.Const) (int64, bool) {
	if c.Value == nil {
		return 0, false
	}
	return c.Int64(), true
}

func (fc *FnCtx) execIndex(fr *Frame, st *State, x *ssa.Index) Val {
	base := fc.value(fr, st, x.X)
	if av, ok := base.(*ArrVal); ok {
		if c, ok := x.Index.(*ssa.Const); ok {
			if i, ok := constInt(c); ok && int(i) < len(av.Elems) {
				return av.Elems[i]
			}
		}
	}
	if t, ok := base.(Term); ok && t.Sort == SStr {
		return fc.havocValue(st, "strbyte", x.Type())
	}
	fc.abstract(x, "index of non-slice value")
	return fc.havocValue(st, "index", x.Type())
}

func (fc *FnCtx) execSlice(fr *Frame, st *State, x *ssa.Slice) Val {
	base := fc.value(fr, st, x.X)
	// slicing a local array (varargs)
	if pv, ok := base.(*PtrVal); ok && pv.Kind == PCell {
		constBound := func(v ssa.Value, def int) (int, bool) {
			if v == nil {
				return def, true
			}
			if c, ok := v.(*ssa.Const); ok {
				if i, ok := constInt(c); ok {
					return int(i), true
				}
			}
			return 0, false
		}
		if av0, ok := st.cells[pv.Cell].(*ArrVal); ok {
			lo, lok := constBound(x.Low, 0)
			hi, hok := constBound(x.High, len(av0.Elems))
			if lok && hok && 0 <= lo && lo <= hi && hi <= len(av0.Elems) && x.Max == nil && !(x.Low == nil && x.High == nil) {
				// make([]T, n, m) with constant sizes: new [m]T sliced [:n]
				st2, isSlice := unalias(x.Type()).Underlying().(*types.Slice)
				es := ""
				if isSlice {
					es = sortOf(st2.Elem())
				}
				allTerms := isSlice
				for _, e := range av0.Elems {
					if t, ok := e.(Term); !ok || t.Sort != es {
						allTerms = false
					}
				}
				if allTerms {
					hn := elemHeapName(es)
					h := fc.heapRaw(st, hn, arrSort(SInt, arrSort(SInt, es)))
					arr := fc.allocRef(st)
					content := tSelect(h, arr)
					for i, e := range av0.Elems {
						content = tStore(content, tIx(intLit(0), intLit(int64(i))), e.(Term))
					}
					fc.setHeap(st, hn, tStore(h, arr, content))
					return fc.nameTerm("lit", mkSlice(arr, intLit(int64(lo)), intLit(int64(hi-lo)), intLit(int64(len(av0.Elems)-lo))))
				}
			}
		}
		if av, ok := st.cells[pv.Cell].(*ArrVal); ok && x.Low == nil && x.High == nil {
			st2, isSlice := unalias(x.Type()).Underlying().(*types.Slice)
			if !isSlice {
				return av
			}
			if it, isIface := unalias(st2.Elem()).Underlying().(*types.Interface); isIface && !isTypeParam(st2.Elem()) && !isErrorType(st2.Elem()) {
				_ = it
				return av // varargs of interface values (fmt, log): kept symbolic on the Go side
			}
			// slice literal: materialise as a fresh backing array
			es := sortOf(st2.Elem())
			allTerms := true
			for _, e := range av.Elems {
				if t, ok := e.(Term); !ok || t.Sort != es {
					allTerms = false
				}
			}
			if !allTerms {
				return av
			}
			hn := elemHeapName(es)
			h := fc.heapRaw(st, hn, arrSort(SInt, arrSort(SInt, es)))
			arr := fc.allocRef(st)
			content := tSelect(h, arr)
			for i, e := range av.Elems {
				content = tStore(content, tIx(intLit(0), intLit(int64(i))), e.(Term))
			}
			fc.setHeap(st, hn, tStore(h, arr, content))
			n := intLit(int64(len(av.Elems)))
			return fc.nameTerm("lit", mkSlice(arr, intLit(0), n, n))
		}
	}
	sl, ok := base.(Term)
	if !ok {
		return fc.havocValue(st, "slice", x.Type())
	}
	if sl.Sort == SBytes || sl.Sort == SStr {
		fc.abstract(x, "sub-slicing of opaque bytes/string")
		return fc.havocValue(st, "subbytes", x.Type())
	}
	if sl.Sort != SSlice {
		return fc.havocValue(st, "slice", x.Type())
	}
	lo := intLit(0)
	if x.Low != nil {
		lo = fc.termOrHavoc(fr, st, x.Low, x)
	}
	hi := slLen(sl)
	if x.High != nil {
		hi = fc.termOrHavoc(fr, st, x.High, x)
	}
	mx := slCap(sl)
	if x.Max != nil {
		mx = fc.termOrHavoc(fr, st, x.Max, x)
	}
	fc.obligeSafe(st, "slice", "", tAnd(tLe(intLit(0), lo), tLe(lo, hi), tLe(hi, mx), tLe(mx, slCap(sl))), x.Pos(), nil, "slice bounds in range")
	return fc.nameTerm("sl", mkSlice(slArr(sl), tAdd(slOff(sl), lo), tSub(hi, lo), tSub(mx, lo)))
}

func (fc *FnCtx) execMakeSlice(fr *Frame, st *State, x *ssa.MakeSlice) Val {
	ln := fc.termOrHavoc(fr, st, x.Len, x)
	cp := fc.termOrHavoc(fr, st, x.Cap, x)
	if isByteSlice(x.Type()) {
		fc.obligeSafe(st, "make", "", tAnd(tLe(intLit(0), ln), tLe(ln, cp), tLe(cp, bigLit(maxLenS))), x.Pos(), nil, "make: len/cap in range")
		b := fc.fresh("mkbytes", SBytes)
		fc.assume(st, tEq(app(SInt, "blen", b), ln))
		return b
	}
	fc.obligeSafe(st, "make", "", tAnd(tLe(intLit(0), ln), tLe(ln, cp), tLe(cp, bigLit(maxLenS))), x.Pos(), nil, "make: len/cap in range")
	arr := fc.allocRef(st)
	es := sortOf(x.Type().Underlying().(*types.Slice).Elem())
	// elements are zero-initialised
	hn := elemHeapName(es)
	h := fc.heapRaw(st, hn, arrSort(SInt, arrSort(SInt, es)))
	if sn, isS := isStructVal(x.Type().Underlying().(*types.Slice).Elem()); isS && namedPath(x.Type().Underlying().(*types.Slice).Elem()) != "time.Time" {
		// a slice of struct VALUES: every slot is its own (zeroed) object. Slot k is the reference base+1+k;
		// the allocation pointer moves past all cap slots.
		base := fc.allocTop(st)
		top := fc.fresh("allocTop", SInt)
		fc.assume(st, tEq(top, tAdd(tAdd(base, cp), intLit(1))))
		st.cells[keyAlloc] = top
		row := fc.fresh("slots", arrSort(SInt, SInt))
		fc.assume(st, T(SBool, fmt.Sprintf("(forall ((k Int)) (! (= (select %s k) (+ %s 1 k)) :pattern ((select %s k))))", row.S, base.S, row.S)))
		fc.setHeap(st, hn, tStore(h, arr, row))
		// zero-initialised fields of the fresh objects (heaps are unconstrained above the old allocation
		// pointer, so this only fixes what was arbitrary)
		for i := 0; i < sn.Underlying().(*types.Struct).NumFields(); i++ {
			f := sn.Underlying().(*types.Struct).Field(i)
			fs := sortOf(f.Type())
			zf, ok := fc.zeroValue(st, f.Type()).(Term)
			if !ok || zf.Sort != fs {
				continue
			}
			fh := fc.heap(st, structHeapName(sn, f.Name()), fs)
			fc.assume(st, T(SBool, fmt.Sprintf("(forall ((r Int)) (! (=> (and (< %s r) (< r %s)) (= (select %s r) %s)) :pattern ((select %s r))))", base.S, top.S, fh.S, zf.S, fh.S)))
		}
		return fc.nameTerm("mk", mkSlice(arr, intLit(0), ln, cp))
	}
	zv, ok := fc.zeroValue(st, x.Type().Underlying().(*types.Slice).Elem()).(Term)
	if ok && zv.Sort == es {
		fc.setHeap(st, hn, tStore(h, arr, T(arrSort(SInt, es), fmt.Sprintf("((as const %s) %s)", arrSort(SInt, es), zv.S))))
	}
	return fc.nameTerm("mk", mkSlice(arr, intLit(0), ln, cp))
}

func (fc *FnCtx) execMakeInterface(fr *Frame, st *State, x *ssa.MakeInterface) Val {
	v := fc.value(fr, st, x.X)
	if isErrorType(x.Type()) {
		// boxing a concrete error type
		if n, ok := isStructPtr(x.X.Type()); ok {
			key := shortPkg(n.Obj().Pkg().Path()) + "." + n.Obj().Name()
			for _, es := range fc.eng.errStructs {
				if es == key {
					return fc.boxErrStruct(st, es, v.(Term))
				}
			}
		}
		fc.declareSentinels()
		e := fc.fresh("boxederr", SErr)
		fc.assume(st, tNot(tEq(e, T(SErr, "nilErr"))))
		fc.assumeNoSentinel(st, e)
		return e
	}
	// a pointer to a repo struct boxed into a non-empty, non-error interface (e.g. the oneof wrapper of a
	// protobuf message): the interface value is the reference itself, its dynamic type is dynType(ref)
	if n, ok := isStructPtr(x.X.Type()); ok && n.Obj().Pkg() != nil && (isRepoPkg(n.Obj().Pkg()) || strings.HasPrefix(n.Obj().Pkg().Path(), "github.com/ipfs/go-datastore")) {
		if it, ok := unalias(x.Type()).Underlying().(*types.Interface); ok && !it.Empty() {
			if vt, ok := v.(Term); ok {
				return vt
			}
		}
	}
	return &AnyVal{V: v, GT: x.X.Type()}
}

// declareAnyHdr: headers boxed into `any` values that live in memory (pubsub.Message.ValidatorData).
func (fc *FnCtx) declareAnyHdr() {
	if _, ok := fc.decls.text["anyHdr"]; ok {
		return
	}
	fc.decls.fun("anyHdr", []string{SHdr}, SInt)
	fc.decls.fun("unAnyHdr", []string{SInt}, SHdr)
	fc.decls.fun("isAnyHdr", []string{SInt}, SBool)
	fc.define(T(SBool, "(forall ((h Hdr)) (! (and (= (unAnyHdr (anyHdr h)) h) (isAnyHdr (anyHdr h)) (not (= (anyHdr h) 0))) :pattern ((anyHdr h))))"))
	fc.define(T(SBool, "(forall ((x Int)) (! (=> (isAnyHdr x) (= (anyHdr (unAnyHdr x)) x)) :pattern ((unAnyHdr x))))"))
}

// dynamic type tags of locally allocated repo structs (for type switches on interface values)
var dynTypeIDs = map[string]int{}

func dynTypeID(n *types.Named) int {
	key := n.Obj().Name()
	if n.Obj().Pkg() != nil {
		key = n.Obj().Pkg().Path() + "." + key
	}
	id, ok := dynTypeIDs[key]
	if !ok {
		id = len(dynTypeIDs) + 1
		dynTypeIDs[key] = id
	}
	return id
}

// boxErrStruct models `error(ptr)` for a known error struct type.
func (fc *FnCtx) boxErrStruct(st *State, es string, ref Term) Term {
	fc.declareSentinels()
	n := sanitize(es)
	e := app(SErr, "box_"+n, ref)
	fc.assume(st, tNot(tEq(e, T(SErr, "nilErr"))))
	fc.assume(st, tEq(app(SInt, "as_"+n, e), ref))
	if es == "header.VerifyError" {
		// Unwrap() returns Reason: errors.Is / errors.As look through it
		nt := fc.eng.lookupNamedType("header", "VerifyError").(*types.Named)
		reason := tSelect(fc.heap(st, structHeapName(nt, "Reason"), SErr), ref)
		for _, s := range fc.eng.sentinels {
			fc.assume(st, tEq(app(SBool, "errIs", e, T(SErr, s)), app(SBool, "errIs", reason, T(SErr, s))))
		}
		for _, o := range fc.eng.errStructs {
			if o != es {
				on := sanitize(o)
				fc.assume(st, tEq(app(SInt, "as_"+on, e), app(SInt, "as_"+on, reason)))
			}
		}
	} else {
		for _, s := range fc.eng.sentinels {
			fc.assume(st, tNot(app(SBool, "errIs", e, T(SErr, s))))
		}
		for _, o := range fc.eng.errStructs {
			if o != es {
				fc.assume(st, tEq(app(SInt, "as_"+sanitize(o), e), intLit(0)))
			}
		}
	}
	return e
}

func (fc *FnCtx) assumeNoSentinel(st *State, e Term) {
	for _, s := range fc.eng.sentinels {
		fc.assume(st, tNot(app(SBool, "errIs", e, T(SErr, s))))
	}
	for _, o := range fc.eng.errStructs {
		fc.assume(st, tEq(app(SInt, "as_"+sanitize(o), e), intLit(0)))
	}
}

// assumeForeignError: an error produced by code outside the repository's packages (a user-supplied
// callback, a context cause chosen by the caller) cannot be, or wrap, an UNEXPORTED sentinel error of the
// repository: there is no way to name it. `except` lists sentinel constants that the repository itself
// hands out (e.g. as a context cause).
func (fc *FnCtx) assumeForeignError(st *State, e Term, except ...string) {
	fc.declareSentinels()
	var keys []string
	for k := range fc.eng.sentinelOf {
		keys = append(keys, k)
	}
	sort.Strings(keys)
	for _, k := range keys {
		c := fc.eng.sentinelOf[k]
		name := k[strings.LastIndex(k, ".")+1:]
		if name == "" || !(name[0] >= 'a' && name[0] <= 'z') {
			continue
		}
		skip := false
		for _, x := range except {
			if x == name {
				skip = true
			}
		}
		if skip {
			continue
		}
		fc.assume(st, tAnd(tNot(tEq(e, T(SErr, c))), tNot(app(SBool, "errIs", e, T(SErr, c)))))
	}
	fc.assumptions["A-foreign-errors: errors returned by user callbacks / context causes never are or wrap an unexported sentinel error of the repository"] = true
}

func (fc *FnCtx) execConvert(fr *Frame, st *State, x *ssa.Convert) Val {
	v := fc.value(fr, st, x.X)
	t, ok := v.(Term)
	if !ok {
		return v
	}
	from, to := sortOf(x.X.Type()), sortOf(x.Type())
	switch {
	case from == SInt && to == SInt:
		if _, ok := intRangeOf(x.Type()); ok {
			if fr2, ok2 := intRangeOf(x.X.Type()); ok2 {
				tr, _ := intRangeOf(x.Type())
				if fr2.bits <= tr.bits && fr2.signed == tr.signed {
					return t
				}
				if fr2.bits == tr.bits {
					return fc.nameTerm("conv", wrapOnce(t, x.Type()))
				}
			}
			return fc.nameTerm("conv", wrapMod(t, x.Type()))
		}
		return t
	case from == SBytes && to == SStr:
		fc.decls.fun("bytesToStr", []string{SBytes}, SStr)
		return app(SStr, "bytesToStr", t)
	case from == SStr && to == SBytes:
		fc.decls.fun("strToBytes", []string{SStr}, SBytes)
		return app(SBytes, "strToBytes", t)
	case from == to:
		return t
	}
	fc.abstract(x, fmt.Sprintf("conversion %s -> %s", describeType(x.X.Type()), describeType(x.Type())))
	return fc.havocValue(st, "conv", x.Type())
}

func (fc *FnCtx) execTypeAssert(fr *Frame, st *State, x *ssa.TypeAssert) Val {
	v := fc.value(fr, st, x.X)
	var res Val
	if av, ok := v.(*AnyVal); ok && types.Identical(unalias(av.GT), unalias(x.AssertedType)) {
		res = av.V
		if x.CommaOk {
			return &TupleVal{Elems: []Val{res, tTrue}}
		}
		return res
	}
	// an `any` value read from memory, asserted to the header type parameter
	if vt, ok := v.(Term); ok && vt.Sort == SInt && isTypeParam(x.AssertedType) {
		fc.declareAnyHdr()
		okc := fc.nameTerm("isH", tAnd(tNot(tEq(vt, intLit(0))), app(SBool, "isAnyHdr", vt)))
		val := app(SHdr, "unAnyHdr", vt)
		if x.CommaOk {
			return &TupleVal{Elems: []Val{tIte(okc, val, T(SHdr, "zeroHdr")), okc}}
		}
		ps := st.clone()
		ps.pc = tAnd(st.pc, tNot(okc))
		ps.why = "type assertion without comma-ok at " + fc.posOf(x.Pos())
		fr.panics = append(fr.panics, ps)
		st.pc = fc.nameTerm("pc_ta", tAnd(st.pc, okc))
		return val
	}
	// interface value represented by a reference, asserted to a pointer to a repo struct
	if vt, ok := v.(Term); ok && vt.Sort == SInt {
		if n, ok := isStructPtr(x.AssertedType); ok && n.Obj().Pkg() != nil && isRepoPkg(n.Obj().Pkg()) {
			if _, isIface := unalias(x.X.Type()).Underlying().(*types.Interface); isIface {
				fc.decls.fun("dynType", []string{SInt}, SInt)
				okc := fc.nameTerm("isT", tAnd(tNot(tEq(vt, intLit(0))), tEq(app(SInt, "dynType", vt), intLit(int64(dynTypeID(n))))))
				if x.CommaOk {
					return &TupleVal{Elems: []Val{tIte(okc, vt, intLit(0)), okc}}
				}
				ps := st.clone()
				ps.pc = tAnd(st.pc, tNot(okc))
				ps.why = "type assertion without comma-ok at " + fc.posOf(x.Pos())
				fr.panics = append(fr.panics, ps)
				st.pc = fc.nameTerm("pc_ta", tAnd(st.pc, okc))
				return vt
			}
		}
	}
	if it, ok := unalias(x.AssertedType).Underlying().(*types.Interface); ok && it.Empty() && !x.CommaOk {
		// conversion of a (type-parameter) value to `any`: cannot fail for non-nil operands
		return &AnyVal{V: v, GT: x.X.Type()}
	}
	res = fc.havocValue(st, "assert", x.AssertedType)
	if x.CommaOk {
		ok := fc.fresh("assertok", SBool)
		return &TupleVal{Elems: []Val{res, ok}}
	}
	// may panic
	okc := fc.fresh("assertok", SBool)
	ps := st.clone()
	ps.pc = tAnd(st.pc, tNot(okc))
	ps.why = "type assertion without comma-ok at " + fc.posOf(x.Pos())
	fr.panics = append(fr.panics, ps)
	st.pc = fc.nameTerm("pc_ta", tAnd(st.pc, okc))
	return res
}

// ---------------------------------------------------------------------------
// Maps

func (fc *FnCtx) mapHeaps(st *State, mt *types.Map) (hasN, valN, ks, vs string) {
	hasN, valN = mapHeapNames(mt)
	ks = sortOf(mt.Key())
	vs = sortOf(mt.Elem())
	fc.heapRaw(st, hasN, arrSort(SInt, arrSort(ks, SBool)))
	fc.heapRaw(st, valN, arrSort(SInt, arrSort(ks, vs)))
	return
}

func (fc *FnCtx) execLookup(fr *Frame, st *State, x *ssa.Lookup) Val {
	mt, ok := unalias(x.X.Type()).Underlying().(*types.Map)
	if !ok {
		return fc.havocValue(st, "lookup", x.Type())
	}
	m := fc.termOrHavoc(fr, st, x.X, x)
	k := fc.termOrHavoc(fr, st, x.Index, x)
	hasN, valN, _, _ := fc.mapHeaps(st, mt)
	has := tSelect(tSelect(st.heaps[hasN], m), k)
	zv, zok := fc.zeroValue(st, mt.Elem()).(Term)
	val := tSelect(tSelect(st.heaps[valN], m), k)
	var v Val = val
	if zok {
		v = fc.nameTerm("lk", tIte(has, val, zv))
	}
	if vt, ok := v.(Term); ok {
		fc.assume(st, fc.typeFact(st, vt, mt.Elem()))
	}
	if x.CommaOk {
		return &TupleVal{Elems: []Val{v, has}}
	}
	return v
}

func (fc *FnCtx) execMapUpdate(fr *Frame, st *State, x *ssa.MapUpdate) {
	mt := unalias(x.Map.Type()).Underlying().(*types.Map)
	m := fc.termOrHavoc(fr, st, x.Map, x)
	k := fc.termOrHavoc(fr, st, x.Key, x)
	v := fc.termOrHavoc(fr, st, x.Value, x)
	hasN, valN, _, _ := fc.mapHeaps(st, mt)
	hh := st.heaps[hasN]
	vh := st.heaps[valN]
	fc.setHeap(st, hasN, tStore(hh, m, tStore(tSelect(hh, m), k, tTrue)))
	fc.setHeap(st, valN, tStore(vh, m, tStore(tSelect(vh, m), k, v)))
	fc.checkStepInv(fr, st, x)
}

func (fc *FnCtx) execNext(fr *Frame, st *State, x *ssa.Next) Val {
	it, ok := fc.value(fr, st, x.Iter).(*rangeIter)
	if !ok || x.IsString {
		return fc.havocValue(st, "next", x.Type())
	}
	mt, isMap := unalias(it.x.X.Type()).Underlying().(*types.Map)
	if !isMap {
		return fc.havocValue(st, "next", x.Type())
	}
	m, ok := it.coll.(Term)
	if !ok {
		return fc.havocValue(st, "next", x.Type())
	}
	hasN, valN, ks, _ := fc.mapHeaps(st, mt)
	okc := fc.fresh("nextok", SBool)
	k := fc.fresh("nextk", ks)
	fc.assume(st, tImp(okc, tSelect(tSelect(st.heaps[hasN], m), k)))
	vk := cellKey{fr.id, "visited:" + it.x.Name()}
	if vis, ok := st.cells[vk].(Term); ok {
		// a key is produced at most once
		fc.assume(st, tImp(okc, tNot(tSelect(vis, k))))
		if deleteOnlyLoop(x) {
			// Go spec: an entry that is not removed during the iteration is produced; when the body
			// only deletes (no insertion can add unvisited entries) every entry left at the end was visited
			q := fc.fresh("q_vis", ks)
			fc.assume(st, tImp(tNot(okc), T(SBool, fmt.Sprintf("(forall ((%s %s)) (! (=> (select %s %s) (select %s %s)) :pattern ((select %s %s))))",
				q.S, ks, tSelect(st.heaps[hasN], m).S, q.S, vis.S, q.S, tSelect(st.heaps[hasN], m).S, q.S))))
		}
		st.cells[vk] = tIte(okc, tStore(vis, k, tTrue), vis)
	}
	v := tSelect(tSelect(st.heaps[valN], m), k)
	return &TupleVal{Elems: []Val{okc, k, v}}
}
