#!/bin/bash
# Runs the quick command of every check registered in MANIFEST.json; prints one line per property.
cd "$(dirname "$0")/.."
fail=0
for p in $(python3 -c "import json;print(' '.join(c['property_id'] for c in json.load(open('MANIFEST.json'))['checks']))"); do
  out=$(./check $p ${1:-quick} 2>&1); rc=$?
  echo "$p rc=$rc $(echo "$out" | tail -1)"
  [ $rc -ne 0 ] && { echo "$out" | grep VIOLATION | cut -c1-220; fail=1; }
done
exit $fail
