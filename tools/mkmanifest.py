#!/usr/bin/env python3
"""Regenerates /verif/MANIFEST.json from the per-property table below (kept in one place so the
claims stay in sync with what the checks decide)."""
import json, os, subprocess
HERE = os.path.dirname(os.path.dirname(os.path.abspath(__file__)))
props = [json.loads(l) for l in open(os.path.join(HERE, 'properties.jsonl'))]
TECH = "contract-based deductive verification: weakest-precondition VCs generated from go/ssa of the real source, contracts in //go:build verif comment files, discharged by z3/cvc5"
COMMON = "Trusted: go/types+go/ssa, the govc VC generator (validated by the must-fail corpus and cover queries), z3/cvc5. "
CLAIMS = {
 "C01": ("Every obligation generated from the SSA of header.verify and header.Verify against postconditions taken from the property statement (accept iff all mandatory checks and the type-level Verify pass; every rejection is a *VerifyError wrapping the matching sentinel or the type's error; SoftFailure exactly for non-adjacent or self-reported-soft type-level rejections, never for mandatory failures) is discharged for all header values, all clock readings and every shape of type-level result.",
         COMMON + "Assumes header observers are pure (A-pure), time.Time is a mathematical instant (A-time), library models of errors.As/fmt.Errorf/time. Not decided: determinism/purity of the header type's own methods.", "§7 C01"),
 "C02": ("VerifyRange is verified against the C02 statement with an inductive loop invariant (no bound on the range length): result is a prefix of the input, every element passed Verify against its predecessor (history predicate passedVerify defined at Verify's exit), heights increase by one from the first element on, error is nil iff the whole non-empty input is returned, empty input is an error; bounds, frame and termination obligations included.",
         COMMON + "Assumes the C01 contract of Verify (proved by the C01 check), A-pure, library models; the history predicate passedVerify is definitional (assumed at Verify's exit, only used positively).", "§7 C02"),
 "C03": ("Flow of verified headers under contract: an uninterpreted predicate verified(h) can only be introduced by Verify's exit (history predicate passedVerify + step axiom), by the contract-abiding Getter, or by reading the pending ranges / store (invariant assumed on reads). Every sink carries it as a precondition proved at each call site: syncStore.Append (all headers verified), ranges.Add via setLocalHead, setLocalHead itself. Syncer.verify / incomingNetworkHead return nil only for verified heads (bifurcation included); syncStore.Append is proved to accept only a run contiguous with the head it read and to leave the inner store untouched on errNonAdjacent; processHeaders removes a pending range only after its headers were handed to the store.",
         COMMON + "Assumes the data-structure invariants of pending ranges and store on reads (trusted accessor contracts ranges.Head/First/Add, syncStore.Head), the Getter contract of interface.go, C01's Verify contract. Not decided: adjacency of two concurrent syncStore.Append calls that read the same stale head; gap-freedom of the Store itself (C04).", "§7 C03"),
 "C07": ("requestHeaders: for every behaviour of a contract-abiding getter (errors, shorter contiguous prefixes) the loop terminates (variant to-height(fromHead)), never issues a degenerate request, appends only verified contiguous ranges and on nil error the last header handed to the store has height `to` (history ghost appendedTop). processHeaders/doSync: partial correctness of the same postcondition through the pending ranges, a pending range is removed only after its headers were stored, State.Error cleared on success and range fields set. headerRange.rangeAmount/Get/Remove: bounds safety and exact prefix semantics under the range invariant (an off-by-one that made Get/Remove return a stale element or panic was repaired, F15).",
         COMMON + "Assumes the Getter contract, trusted contracts of ranges.First/Head/Add. Not decided: that the one-slot trigger channel is never lost across goroutines, SyncWait returning, termination of processHeaders while gossip keeps adding ranges.", "§7 C07"),
 "C10": ("handleRangeRequest / handleHeadRequest / handleRequestByHash / requestHandler against the assumed header.Store contract for arbitrary origin/amount (incl. wrap-around), store tail/head: ErrRangeMixUp and ErrHeadersLimitExceeded before any store access, ghost read counter bounded by min(requested, MaxRangeRequestSize), replies are exactly chainAt(origin..) with a shorter prefix only past the head, head request returns the head, every store call receives a deadline-bounded context, no panic escapes requestHandler. One genuine defect repaired (F4: pruned heights made the server read up to the head).",
         COMMON + "Assumes the header.Store contract (HasAt iff tail<=h<=head, GetRange returns the chain headers and costs to-from reads; the same text the store checks are meant to prove), head/tail stable during one request, otel/log calls are no-ops, stream I/O havoc.", "§7 C10"),
 "C15": ("verifyBifurcating under the Getter contract (GetByHeight returns a header of the requested height or a non-VerifyError error): inductive invariant subjHeight<newHeight, diff<=newHeight-subjHeight, subjHead verified; lexicographic variant (newHeight-subjHeight, diff) proves termination for every getter/Verify behaviour; nil result implies the candidate is verified through a chain of successful Verify calls; only verified intermediates reach setLocalHead; a soft-failed candidate is refused only when the promoted subjective head is adjacent to it; Syncer.verify bifurcates only on soft failures (precondition height(new)>height(subj) follows from C01).",
         COMMON + "Assumes C01's Verify contract and the Getter contract. Not decided: a closed-form bound on the number of getter requests; completeness beyond the refusal-reason clause.", "§7 C15"),
 "C16": ("Tail arithmetic under contract for every parameter set accepted by Validate (Validate's own postcondition is proved) and arbitrary heights/timestamps: no division by zero, no wrap-around, estimateTailHeight/findTailHeight/tailHeight/renewTail results within [1 or oldTail, head], loop termination of the tail scan, store lookups only at heights that cannot block, DeleteRange call preconditions in moveTail. Two genuine defects were repaired (fix: commits, see known_findings.txt), two are recorded as known findings (retention with fast blocks F3; tail above the stored head F14).",
         COMMON + "Assumes the header.Store/Getter interface contracts (heights never decrease, GetByHeight returns the header of that height), entry assumptions of subjectiveTail (store height <= network head, tail only moved under tailMu), A-time. Not decided: the end-to-end store state after doSync (C07) and DeleteRange (C08).", "§7 C16"),
}
NA_DEFAULT = "check not built yet in this round (work in progress, see DESIGN.md)"
NA = {}
hooks_commits = subprocess.run(['git','-C','/repo','log','--format=%h %s'],capture_output=True,text=True).stdout.splitlines()
src = [l.split()[0] for l in hooks_commits if l.split(' ',1)[1].startswith('verif:')]
m = {"version": 1, "setup_cmd": "./setup.sh",
 "hooks": {"guard": "verif", "enable": "-tags verif (the contract files verif_contracts.go carry //go:build verif and contain comments only)",
           "baseline_off_cmd": "cd /repo && go test -mod=mod -json -vet=off -count=1 -timeout 25m ./...",
           "source_commits": src, "add_only": True},
 "engines": [{"name": "govc", "path": "govc/", "serves_properties": sorted(CLAIMS),
              "kind_free_text": "weakest-precondition style VC generator over go/ssa of the real /repo source; contracts in //go:build verif comment files; obligations discharged by z3 4.8.12 / z3 5.1.0 / cvc5 1.0"}],
 "checks": [], "not_applicable": [],
 "notes": "Defects of the pinned tree repaired by fix: commits and defects recorded as findings are listed in known_findings.txt; seeded property-breaking changes and which obligation catches them are in seeded/ and DESIGN.md."}
for p in props:
    pid = p['id']
    if pid in CLAIMS:
        text, note, ref = CLAIMS[pid]
        m['checks'].append({"property_id": pid, "quick_cmd": f"./check {pid} quick", "thorough_cmd": f"./check {pid} thorough",
          "evidence_file": f"evidence/{pid}.json", "replay_cmd_template": "./check replay {path}", "engine": "govc",
          "level_claimed": {"category": "proof", "text": text, "design_ref": "DESIGN.md " + ref}, "level_note": note, "technique": TECH})
    else:
        m['not_applicable'].append({"property_id": pid, "reason": NA.get(pid, NA_DEFAULT)})
json.dump(m, open(os.path.join(HERE, 'MANIFEST.json'), 'w'), indent=1)
print("checks:", [c['property_id'] for c in m['checks']])
