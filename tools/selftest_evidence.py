#!/usr/bin/env python3
"""Adds the must-fail corpus results of a thorough run to the evidence file written by govc."""
import json, sys
ev, out = sys.argv[1], sys.argv[2]
try:
    d = json.load(open(ev))
except Exception:
    sys.exit(0)
res = [l.rstrip('\n') for l in open(out) if l.startswith('SELFTEST')]
d.setdefault('coverage', {})['selftest'] = {
    'mutants_run': len([l for l in res if not l.startswith('SELFTEST-SKIPPED')]),
    'detected': len([l for l in res if l.startswith('SELFTEST ')]),
    'undetected': [l for l in res if l.startswith('SELFTEST-FAILED')],
    'skipped_patch_does_not_apply': [l for l in res if l.startswith('SELFTEST-SKIPPED')],
    'results': res,
}
json.dump(d, open(ev, 'w'), indent=1)
